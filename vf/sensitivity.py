"""Sensitivity runner (maintenance tool, not a registered check).

usage: python -m vf.sensitivity [ID ...] [--tier quick] [--only NAME] [--with ID]

For every mutant in vf/mutants.py (and every /verif/seeded/<name>/patch.diff whose meta.json names the property) a
scratch copy of /repo/src is made under $TMPDIR, the mutation applied, the property's check run against it with
VERIF_REPO_SRC / VERIF_OUT pointing to scratch locations, and the copy removed. Prints caught / MISSED per mutant.
"""
from __future__ import annotations

import json
import os
import shutil
import subprocess
import sys
import tempfile
from concurrent.futures import ThreadPoolExecutor
from pathlib import Path

ROOT = Path(__file__).resolve().parent.parent


def load_mutants() -> list[dict]:
    ns: dict = {}
    exec((ROOT / "vf" / "mutants.py").read_text(), ns)
    muts = list(ns["MUTANTS"])
    sd = ROOT / "seeded"
    if sd.is_dir():
        for d in sorted(sd.iterdir()):
            if (d / "patch.diff").exists() and (d / "meta.json").exists():
                meta = json.loads((d / "meta.json").read_text())
                if meta.get("obsolete"):
                    continue  # no longer a property-breaking change on the current tree (reason in its meta.json)
                muts.append({"prop": meta["property"], "name": f"seeded/{d.name}", "patch": str(d / "patch.diff"),
                             "also": meta.get("also_checked_by", []), "tier": meta.get("tier")})
    return muts


def run_one(m: dict, tier: str) -> tuple[dict, str, str]:
    """The change's own property first; if that check stays quiet, the properties named in meta.json's also_checked_by."""
    tier = m.get("tier") or tier  # a change that only the thorough tier can reach says so in its meta.json
    res = _run_one(m, tier)
    if res[1] == "MISSED":
        for other in m.get("also", []):
            r2 = _run_one(dict(m, prop=other), tier)
            if r2[1] == "caught":
                return m, f"caught-by-{other}", r2[2]
    return res


def _run_one(m: dict, tier: str) -> tuple[dict, str, str]:
    tmp = Path(tempfile.mkdtemp(prefix="vfmut."))
    try:
        shutil.copytree("/repo/src", tmp / "src", ignore=shutil.ignore_patterns("__pycache__"))
        if "patch" in m:
            r = subprocess.run(["patch", "-p1", "-s", "-d", str(tmp), "-i", m["patch"]], capture_output=True, text=True)
            if r.returncode != 0:
                return m, "APPLY-FAILED", r.stdout + r.stderr
        else:
            f = tmp / "src" / "gallia" / m["file"]
            s = f.read_text()
            if s.count(m["old"]) < 1:
                return m, "APPLY-FAILED", f"pattern not found in {m['file']}"
            s = s.replace(m["old"], m["new"], m.get("count", 1))
            for old2, new2 in m.get("more", []):  # further edits of the same file that belong to the same change
                if old2 not in s:
                    return m, "APPLY-FAILED", f"second pattern not found in {m['file']}"
                s = s.replace(old2, new2, 1)
            f.write_text(s)
        env = dict(os.environ, VERIF_REPO_SRC=str(tmp / "src"), VERIF_OUT=str(tmp / "out"), VERIF_NO_SHRINK="1",
                   VERIF_JOBS=os.environ.get("VERIF_MUT_JOBS", "4"))
        # own process group: on a timeout the whole tree of workers is killed (workers do not carry the scratch path in their
        # command line, so they cannot be found by name)
        import signal as _sig

        pr = subprocess.Popen([str(ROOT / "bin" / "check"), m["prop"], tier], stdout=subprocess.PIPE, stderr=subprocess.PIPE, text=True, env=env,
                              start_new_session=True)
        try:
            so, se = pr.communicate(timeout=int(os.environ.get("VERIF_MUT_TIMEOUT", "600")))
        except subprocess.TimeoutExpired:
            try:
                os.killpg(pr.pid, _sig.SIGKILL)
            except ProcessLookupError:
                pass
            pr.wait()
            return m, "HANG(timeout)", ""
        r = subprocess.CompletedProcess(pr.args, pr.returncode, so, se)
        lines = [l for l in r.stdout.splitlines() if l.startswith("violation:")]
        if r.returncode == 1:
            if os.environ.get("VERIF_SAVE_REGRESS") == "1":
                _save_regress(m, tmp / "out" / "replays" / m["prop"])
            return m, "caught", "; ".join(l[11:140] for l in lines[:3])
        if r.returncode == 0:
            return m, "MISSED", ""
        return m, f"ERROR rc={r.returncode}", (r.stderr or "")[-600:]
    finally:
        shutil.rmtree(tmp, ignore_errors=True)


def _save_regress(m: dict, replays: Path) -> None:
    """Keep up to two witnesses of a caught change as committed regression cases - but only witnesses that are quiet on
    the unchanged tree (checked by replaying them against /repo)."""
    dst = ROOT / "regress" / m["prop"]
    dst.mkdir(parents=True, exist_ok=True)
    tag = m["name"].replace("/", "-")
    kept = 0
    for f in sorted(replays.glob("*.json"), key=lambda x: x.stat().st_size):
        if kept >= 2 or f.stat().st_size > 20000:
            break
        w = json.loads(f.read_text())
        if str(w.get("message", "")).startswith("regression of fixed finding") or str(w.get("message", "")).startswith("regression witness"):
            continue
        env = {k: v for k, v in os.environ.items() if k not in ("VERIF_REPO_SRC", "VERIF_OUT")}
        r = subprocess.run([str(ROOT / "bin" / "check"), m["prop"], "quick", "--replay", str(f)], capture_output=True, text=True, env=env)
        if r.returncode != 0:
            continue
        (dst / f"{tag}-{kept + 1}.json").write_text(json.dumps({"property": m["prop"], "origin": m["name"], "bucket": w["bucket"], "witness": w["witness"]}, indent=1, sort_keys=True))
        kept += 1


def main() -> None:
    args = sys.argv[1:]
    tier = "quick"
    only = None
    if "--tier" in args:
        i = args.index("--tier"); tier = args[i + 1]; del args[i:i + 2]
    if "--only" in args:
        i = args.index("--only"); only = args[i + 1]; del args[i:i + 2]
    with_prop = None
    if "--with" in args:  # run another property's check against the selected changes
        i = args.index("--with"); with_prop = args[i + 1].upper(); del args[i:i + 2]
    props = {a.upper() for a in args}
    muts = [m for m in load_mutants() if (not props or m["prop"] in props) and (only is None or only in m["name"])]
    if with_prop:
        muts = [dict(m, prop=with_prop, also=[]) for m in muts]
    with ThreadPoolExecutor(max_workers=int(os.environ.get("VERIF_MUT_PAR", "4"))) as ex:
        results = list(ex.map(lambda m: run_one(m, tier), muts))
    missed = 0
    for m, status, info in results:
        print(f"{m['prop']} {m['name']:<55} {status}  {info}")
        if not status.startswith("caught"):
            missed += 1
    print(f"{len(results) - missed}/{len(results)} caught")


if __name__ == "__main__":
    main()
