"""Child process of the C17 two-logs cases: two zstd log files open at the same time in one process.
usage: python -m vf.c17_child <case.json> <dir>; writes <dir>/a.json.zst, <dir>/b.json.zst and <dir>/written.json"""
import json
import sys
from pathlib import Path


def main() -> None:
    import gallia.command  # noqa: F401  (import order)
    from gallia.log import Loglevel, add_zst_log_handler, get_logger, remove_zst_log_handler

    case = json.load(open(sys.argv[1]))
    d = Path(sys.argv[2])
    logs = {}
    for nm in ("a", "b"):
        lg = get_logger(f"vfc17two.{nm}")
        lg.setLevel(1)
        lg.propagate = False
        logs[nm] = [lg, None]
    written: dict[str, list[str]] = {"a": [], "b": []}
    for step in case["steps"]:
        op, nm = step[0], step[1]
        lg = logs[nm][0]
        if op == "open":
            logs[nm][1] = add_zst_log_handler(f"vfc17two.{nm}", d / f"{nm}.json.zst", Loglevel(10))
        elif op == "close":
            remove_zst_log_handler(f"vfc17two.{nm}", logs[nm][1])
            logs[nm][1] = None
        else:
            lg.info(step[2])
            if logs[nm][1] is not None:
                written[nm].append(step[2])
        (d / "written.json").write_text(json.dumps(written))
    (d / "done").write_text("1")


if __name__ == "__main__":
    main()
