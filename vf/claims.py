claim("C20", "exploration", "Hypothesis grammar-based generation + round-trip / reference-evaluator oracles; exhaustive port enumeration",
      "Generated URIs (DNS/IPv4/IPv6 hosts, ports, per-transport parameter maps, all integer spellings) are round-tripped through "
      "from_parts -> str -> TargetURI -> transport Config and the address the transport dials; range expressions from the documented grammar "
      "are compared with a reference evaluator, malformed ones must raise. Ports 0..65535 enumerated exhaustively. Exploration: "
      "the input space is unbounded, so the claim is 'held on everything generated'.",
      "Trusts Python's ipaddress for host equality and a 10-line reference range evaluator; transports are observed at asyncio.open_connection.")
claim("C19", "exploration", "Hypothesis-generated message sequences x segmentations x read/timeout programs under a virtual-time loop, reference delivery model; exhaustive single split points",
      "The real TCPLinesTransport / UnixLinesTransport / TCPUDSServerTransport.handle_client run over in-memory streams on a virtual-time event loop; "
      "a reference model predicts the outcome and the instant of every read (message k, TimeoutError, end-of-stream). Every single split point of "
      "short streams is enumerated. Exploration: sequences/segmentations are unbounded, so the claim is 'held on everything generated'.",
      "The peer and the kernel are modelled at the asyncio StreamReader boundary; the UDS codec is replaced by a fixed function in the server-loop case.")
claim("C01", "exploration", "Hypothesis per-class argument generation against a reference ISO 14229-1 encoder; round-trip through from_pdu/parse_dynamic; out-of-range mutation; client-method differential",
      "Every request class reachable from the service registry / public namespace is constructed from generated in-range arguments; its bytes are compared with an "
      "independent table-driven ISO 14229-1 encoder, parsed back statically and dynamically (never RawRequest, same fields, same bytes); arguments pushed out of range "
      "must be refused; UDSClient service methods must write the reference encoding of the user's arguments. Exploration over an unbounded argument space.",
      "Trusts the reference encoder (vf/refcodec.py, written from the ISO layouts). Classes without a reference entry are reported as unmodelled in the evidence notes.")
claim("C02", "exploration", "Exhaustive enumeration of short byte strings + Hypothesis valid/mutated responses + atheris coverage-guided fuzzing, re-encode round-trip and reference field decoder",
      "Every byte string of length <= 3 for every response service id (thorough; <= 2 plus samples in quick), reference-encoded valid responses of every service, "
      "their truncated/extended/bit-flipped/duplicated neighbours and an atheris campaign are fed to UDSResponse.parse_dynamic; whatever is accepted must re-encode to the "
      "received bytes and expose the values at the ISO byte positions. Exploration beyond the exhaustively enumerated short strings.",
      "Trusts the reference response decoder (vf/refcodec.py). Rejection (any exception) counts as clean refusal, as parse_pdu maps it to MalformedResponse.")
claim("C03", "exploration", "Hypothesis-generated (request, reply) pairs built by a reference codec, classified by a reference matcher written from the statement; exhaustive NRC table",
      "For every modelled request class (typed, wrapped in RawRequest, and requests that stay raw) genuine replies, negatives naming the same/another service with valid and "
      "invalid codes and lengths, replies of other services, echo-changed and length-broken replies are generated; helpers.parse_pdu must accept / raise RequestResponseMismatch / "
      "raise MalformedResponse as the reference matcher says. The NRC -> exception-class table is enumerated exhaustively. Exploration over an unbounded pair space.",
      "Trusts the reference matcher and reply builders (vf/refcodec.py). Abstains where the statement defines no echo (requests that stay raw) and between mismatch/malformed when a changed echo also breaks the format.")
claim("C04", "fault_enumeration", "Exhaustive enumeration of transport-event scripts (length <= 3 quick / <= 5 thorough) x max_retry, Hypothesis scripts with per-request overrides, long pending/silence runs; reference retry/pending machine; virtual time",
      "Every script over the ten-event alphabet up to the length bound is run against the real UDSClient.request over a scripted transport under virtual time and compared with a "
      "reference retry/pending machine (outcome, number of transmissions, reconnects, no transmission while pending, bounded duration). Fault enumeration: the bounded script space is "
      "covered completely; longer scripts and overrides are sampled.",
      "Scripted in-memory transport and virtual clock stand in for the network; limits (120 pendings, max(timeout,20 s) silence) are only checked generously.")
claim("C13", "exploration", "Hypothesis model/history generation + exhaustive (sid x single payload byte) sweeps + all 512 switch subsets, compared with a reference ISO 14229-1 default-response chain and state machine",
      "RandomUDSServer models are generated from seeds and randomness parameters, driven through UDSServerTransport.handle_request by histories resolved against the model; every reply "
      "is compared with a reference chain (0x11/0x7F, 0x13, 0x12/0x7E, 0x13 in priority order), suppression and session/security state are tracked by a reference state machine. "
      "Exhaustive over sid 0..255 x {empty, every single byte} per swept state and over the 512 switch subsets (thorough); exploration elsewhere.",
      "The reference chain and the request well-formedness rules are my reading of ISO 14229-1; the generated model (server.services) is taken as ground truth for what is offered.")
claim("C14", "exploration", "Hypothesis request histories against generated virtual-ECU models (direct and through the line server loop), differential against gallia's own client parser and a reference decoder; atheris in the thorough tier",
      "Random and structured request histories drive RandomUDSServer models directly and through TCPUDSServerTransport.handle_client on in-memory streams; after every step the server "
      "must not have raised, the connection must be open with one reply line per unsuppressed request, the session must be offered, and helpers.parse_pdu must accept the reply for the "
      "request both as RawRequest and as typed request. Exploration: models, states and requests are unbounded.",
      "Default behaviour switches only; in-memory streams stand in for TCP.")
claim("C16", "exploration", "Hypothesis case batches replayed in several fresh interpreters (different PYTHONHASHSEED, import order, clock, global RNG state): differential of models and transcripts; structural model invariants",
      "Generated (seed, parameters, history) batches are executed by 4 (quick) / 8 (thorough) worker interpreters with different hash seeds, import orders, wall clocks and global random "
      "state; models (canonical JSON) and transcripts must be byte-identical except for the deliberately fresh security seeds; mandatory sessions/services, reachability from and return to "
      "the default session are checked on every generated model. Exploration over seeds, parameters and histories.",
      "Environments are sampled (a finite set of interpreter configurations on one machine); security seeds and keys derived from them are masked.")
claim("C17", "exploration", "Hypothesis record sequences written through the real zstd log handler and read back through PenlogReader / hr in every navigation mode and container; ground truth from a tap handler",
      "Generated record sequences (arbitrary Unicode, all levels, tags, exception info, 0..300 records) are written with add_zst_log_handler and read back from .zst, .gz, plain (with and "
      "without priority prefix) and stdin, forward, reverse, from an offset, tail and head, with every priority threshold, through PenlogReader.records() and through hr; the result must "
      "equal the corresponding slice of what a second handler on the same logger saw. Exploration over an unbounded sequence space.",
      "The tap handler on the same logger is the ground truth for what was logged; exception text is merged into the message by Python's QueueHandler and compared by prefix.")
claim("C05", "exploration", "Hypothesis-generated schedules (start delays, reply scripts, cancellation instants, worker interval) executed deterministically under a virtual-time loop; history invariants over a task-tagged transport trace",
      "2..5 concurrent callers, the cyclic tester-present worker and reconnects share one ECU client over a scripted transport that tags every write/read with the current task; the recorded "
      "history must show no foreign transmission inside any exchange (including pending extensions and retries), only own replies returned, progress after cancellation/failure. "
      "Exploration: arrival orders are generated, not enumerated.",
      "Only asyncio-task interleavings exist (single-threaded client); the virtual clock makes each schedule deterministic.")
claim("C07", "exploration", "Hypothesis-generated client programs x reactive gateway scripts x stream split points, executed on the real HSFZConnection over in-memory streams under virtual time; post-hoc reference demultiplexer on the recorded frame timeline",
      "Generated frame sequences over the HSFZ gateway alphabet (acks with right/wrong echo and pair, data for this/another pair, alive checks, short frames, error/status words), injected relative to "
      "the client's write/ack/read phases and cut at generated split points, are demultiplexed by the real code; a reference demultiplexer decides every operation (outcome, value, instant) from the "
      "recorded delivery timeline; alive replies are checked for instant and content. Exploration over an unbounded sequence space.",
      "The peer is modelled at the StreamReader boundary; status/unknown control words are an abstention; write payloads carry a running number so that stale duplicate acks cannot match.")
claim("C06", "exploration", "Enumerated activation grid (types x response codes) + Hypothesis client programs x reactive gateway scripts x split points on the real DoIPConnection under virtual time; post-hoc reference demultiplexer",
      "connect() is exercised over a patched open_connection for every activation type x response code pair of the grid (full 256x256 in thorough) and for generated URIs/preludes: request bytes and "
      "the usable-iff-0x10 rule. Generated frame sequences over the DoIP gateway alphabet, injected relative to the client's write/ack/read phases and cut at generated split points, are demultiplexed by "
      "the real code and judged by a reference demultiplexer on the recorded delivery timeline (reads in order / nothing lost, write iff acknowledged within 2 s, alive check answered within 0.5 s). "
      "Exploration over an unbounded sequence space; the activation grid is exhaustive in the thorough tier.",
      "Gateway and TCP modelled at the StreamReader boundary; at most one acknowledgement valid for each write is generated.")
claim("C08", "fault_enumeration", "Exhaustive enumeration of cut offsets x cut kinds per generated exchange for four transports, at transport and client level, under virtual time with a scripted restartable peer",
      "For each generated exchange the peer's byte stream is cut at every byte offset with EOF / reset / silence, with and without a caller timeout; transport operations must end in bounded time with "
      "timeout / connection error / end-of-stream and never return incomplete data; UDSClient with retries and ECU.wait_for_ecu must recover through a reconnect once the peer accepts connections again; "
      "close() twice or after the loss is harmless. The client-level exchange also runs with a ResponsePending in front of the final reply (with and without a retry left); DoIP peers come back after up to 9.55 s. "
      "Fault enumeration: all cut points of each exchange are covered; exchanges themselves are sampled.",
      "Loss is modelled as what asyncio's stream layer delivers (feed_eof / set_exception + failing writer / nothing); open_connection is patched in the harness process.")
claim("C09", "exploration", "Hypothesis-generated session-transition graphs (and RandomUDSServer models) x depth x skip x thorough; the real SessionsScanner runs in-process under virtual time; BFS reference oracle",
      "The real SessionsScanner.run() is executed against a reference session-graph ECU (arbitrary directed graphs with cycles, long chains, islands, silent edges, three NRC variants) and against RandomUDSServer models; "
      "the reported sessions must equal the BFS set reachable within depth on the graph without skipped nodes, recorded steps must be real walks, skipped sessions must never be requested, and the scan must stay within a "
      "request budget. Exploration over generated graphs.",
      "The default session is enterable from every session (ISO); in-memory transport and virtual time replace network and clock.")
claim("C10", "exploration", "Hypothesis-generated ECU models / session lists / skip maps / identifier ranges; the real ServicesScanner and ScanIdentifiers run in-process under virtual time; clone-of-the-model and wire-log oracles",
      "The real scanners are executed against RandomUDSServer models; the service scan's findings are compared with what a fresh clone of the model answers to the probe PDUs in each enterable session, with coverage (every sid probed in "
      "the claimed session) and skip checks on the wire log; the identifier scan's tallies are compared with what the ECU actually answered to every identifier x sub-function probe of the range. Exploration over models and configurations.",
      "Clone of the model as ground truth (determinism is C16); in-memory transport and virtual time.")
claim("C11", "exploration", "Hypothesis-generated exchange histories (all request classes x outcome classes x logging toggles x end by disconnect / cancellation / exception) through the real ECU client and DBHandler; rows read back with sqlite3 and compared with a reference recorder and ECU-state tracker",
      "Histories of up to 25 exchanges run through ECU.request with a real DBHandler on a temporary SQLite file; after disconnect() - also after cancellation or a caller exception - the scan_result rows must be exactly the expected "
      "list in transmission order: request bytes, reply bytes as received or NULL, exception, times, the client's state before the request, log mode; nothing while implicit logging is off. Exploration over histories.",
      "Scripted transport answers immediately (real loop because aiosqlite owns a thread); max_retry=0.")
claim("C12", "exploration", "Hypothesis-generated recording histories against RandomUDSServer models through the real ECU client + DBHandler, databases with 1..3 runs / ECU names / property sets; differential replay through the real DBUDSServer",
      "Histories with session changes, seed/key pairs, resets, reads/writes/routines and repeated requests are recorded into a real SQLite database through ECU.request; DBUDSServer built from that database must reproduce the reply bytes captured "
      "on the recording wire step by step (silence where nothing was received), selected by ECU name and/or properties among other runs. Exploration over histories and database layouts.",
      "Presupposition of the statement is checked per step (client state == recorded ECU state); suppressed state-changing requests are excluded because the client cannot observe them; unanswered requests in a non-default state are a recorded known finding.")
claim("C15", "fault_enumeration", "Enumerated grid (thorough) / Hypothesis sample (quick) of exit kind x lifecycle point x resource switches x command kind; the real entry_point() runs in-process; artefacts read back from disk with independent tools",
      "Tiny AsyncScript / Scanner / UDSScanner subclasses fail as scripted at every lifecycle point with every exit kind, with artifacts dir, database, lock file and hooks each on or off, with failing and missing hooks and an "
      "unopenable database (directory, not a database, other schema version), failing / missing / signal-killed hooks, injected faults at database close and commands that adjust their own configuration; the return value, META.json "
      "(exit code, times, the start configuration), the compressed log, the lock file, the run_meta row, the hook environments and the warnings about failing hooks are read back and must be mutually consistent and follow the "
      "documented exit-code mapping; no non-daemon thread may outlive the run. The same is observed from outside on the real command line in child processes (process ends, exit status = META = database). "
      "Fault enumeration: the grid is finite and covered completely in the thorough tier.",
      "KeyboardInterrupt raised inside the coroutine stands for Ctrl-C (no signal delivery); database faults are injected by patching DBHandler methods.")
claim("C18", "exploration", "Enumeration of every (command, option, source subset) cell with generated distinct values through gallia's own parser construction; declared-metadata ground truth from the GALLIA_VERIF hook; JSON round-trip; template scan",
      "For each command of the tree every non-hidden option of a modelled type (bool, int, float, str, path, AutoInt, HexInt, HexBytes, Ranges, EnumArg, TargetURI, optional and positional forms, const flags given bare) is given values "
      "through each subset of {CLI, env, file}; the effective value must come from the highest-priority source, invalid values must exit 2 naming the source they came from (also when a lower-priority source holds a valid value), "
      "the dumped configuration must re-create an equal configuration, every declared Field() must keep its CLI/config metadata after model construction, the template must list every file-configurable option, be valid TOML and be "
      "accepted as config file by every command. "
      "The cell grid is enumerated; values are sampled (three rotations in the thorough tier).",
      "Declared metadata recorded by the guarded hook in GalliaBaseModel.__init_subclass__; required options are satisfied by a solver; option types outside the modelled kinds are counted as skipped.")
