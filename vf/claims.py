claim("C20", "exploration", "Hypothesis grammar-based generation + round-trip / reference-evaluator oracles; exhaustive port enumeration",
      "Generated URIs (DNS/IPv4/IPv6 hosts, ports, per-transport parameter maps, all integer spellings) are round-tripped through "
      "from_parts -> str -> TargetURI -> transport Config and the address the transport dials; range expressions from the documented grammar "
      "are compared with a reference evaluator, malformed ones must raise. Ports 0..65535 enumerated exhaustively. Exploration: "
      "the input space is unbounded, so the claim is 'held on everything generated'.",
      "Trusts Python's ipaddress for host equality and a 10-line reference range evaluator; transports are observed at asyncio.open_connection.")
