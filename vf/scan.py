"""Run gallia scanner commands in-process against an in-memory ECU under virtual time (C09, C10)."""

from __future__ import annotations

import asyncio
import logging
from typing import Any
from unittest import mock

from vf.vtime import run_virtual


class MemECUTransport:
    """Duck-typed BaseTransport whose peer is a UDSServer instance behind UDSServerTransport.handle_request."""

    def __init__(self, server: Any, wire: list[tuple[int, bytes, bytes | None]], budget: int, after_reply: Any = None, mute: Any = None) -> None:
        from gallia.services.uds.server import UDSServerTransport
        from gallia.transports import TargetURI

        self.mutex = asyncio.Lock()
        self.target = TargetURI("tcp-lines://127.0.0.1:1")
        self.is_closed = False
        self.server = server
        self.st = UDSServerTransport(server, self.target)
        self.queue: asyncio.Queue[bytes] = asyncio.Queue()
        self.wire = wire
        self.budget = budget
        self.after_reply = after_reply
        self.mute = mute
        self.latency: float | None = None  # when set, a write suspends (the request is "on the wire") before the ECU sees it

    async def write(self, data: bytes, timeout: float | None = None, tags: list[str] | None = None) -> int:
        if len(self.wire) >= self.budget:
            raise RuntimeError("verif: request budget exhausted (scan does not terminate)")
        if self.latency is not None:
            await asyncio.sleep(self.latency)
        session = self.server.state.session
        reply, _ = await self.st.handle_request(bytes(data))
        if self.mute is not None and reply is not None and self.mute(bytes(data)):
            reply = None  # the ECU processed the request but stays silent
        self.wire.append((session, bytes(data), reply))
        if self.after_reply is not None:
            self.after_reply(self.server, bytes(data), reply)  # ECU-side effect after the reply left (e.g. fallback to the default session)
        if reply is not None:
            self.queue.put_nowait(reply)
        return len(data)

    async def read(self, timeout: float | None = None, tags: list[str] | None = None) -> bytes:
        return await asyncio.wait_for(self.queue.get(), timeout)

    async def request_unsafe(self, data: bytes, timeout: float | None = None, tags: list[str] | None = None) -> bytes:
        await self.write(data, timeout, tags)
        return await self.read(timeout, tags)

    async def request(self, data: bytes, timeout: float | None = None, tags: list[str] | None = None) -> bytes:
        async with self.mutex:
            return await self.request_unsafe(data, timeout, tags)

    async def close(self) -> None:
        self.is_closed = True

    async def reconnect(self, timeout: float | None = None) -> "MemECUTransport":
        self.is_closed = False
        return self


class StubDB:
    """db handler double: every coroutine method is a no-op, selected calls are recorded."""

    def __init__(self, stored: dict[int, list[int]] | None = None) -> None:
        self.transitions: list[tuple[int, list[int]]] = []
        self.connection = None
        self.meta = None
        self.stored = stored or {}  # session transitions an earlier run has left in the database

    async def insert_session_transition(self, destination: int, steps: list[int]) -> None:
        self.transitions.append((destination, list(steps)))

    async def get_session_transition(self, destination: int) -> list[int] | None:
        return self.stored.get(destination)

    def __getattr__(self, name: str) -> Any:
        async def noop(*a: Any, **kw: Any) -> None:
            return None

        return noop


class ResultTap(logging.Handler):
    def __init__(self) -> None:
        super().__init__(0)
        self.results: list[str] = []
        self.all: list[tuple[int, str]] = []

    def emit(self, record: logging.LogRecord) -> None:
        tags = record.__dict__.get("tags") or []
        msg = record.getMessage()
        if "result" in tags:
            self.results.append(msg)
        if record.levelno >= logging.WARNING:
            self.all.append((record.levelno, msg))


def run_scanner(scanner_cls: Any, config: Any, server: Any, budget: int = 200000, with_db_stub: bool = True, max_virtual: float = 5e6,
                after_reply: Any = None, mute: Any = None, db_stored: dict[int, list[int]] | None = None, latency: float | None = None) -> dict[str, Any]:
    wire: list[tuple[int, bytes, bytes | None]] = []
    box: dict[str, Any] = {}
    tap = ResultTap()

    async def go() -> None:
        await server.setup()
        tr = MemECUTransport(server, wire, budget, after_reply, mute)
        tr.latency = latency

        class Loader:
            @classmethod
            async def connect(cls, target: Any, timeout: float | None = None) -> Any:
                return tr

        scanner = scanner_cls(config)
        box["scanner"] = scanner
        if with_db_stub:
            scanner.db_handler = StubDB(db_stored)
            box["db"] = scanner.db_handler
        lg = logging.getLogger("gallia")
        old = lg.level
        lg.setLevel(logging.INFO)
        lg.addHandler(tap)
        try:
            with mock.patch("gallia.plugins.plugin.load_transport", lambda target: Loader):
                try:
                    box["rc"] = await scanner.run()
                except SystemExit as e:
                    box["rc"] = f"exit:{e.code}"
                except Exception as e:  # noqa: BLE001
                    box["rc"] = f"exc:{type(e).__name__}: {e}"
        finally:
            lg.removeHandler(tap)
            lg.setLevel(old)
            await server.teardown()

    status, val, dur = run_virtual(go, max_virtual=max_virtual)
    return {"status": status, "val": val, "wire": wire, "box": box, "results": tap.results, "warnings": tap.all, "dur": dur}
