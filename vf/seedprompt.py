"""Write the prompts for a round of independently seeded changes (maintenance tool, not a registered check).

usage: python -m vf.seedprompt ROUND OUTDIR WORKTREE_BASE [ID ...]

Each prompt gives a sub-agent only the text of one property, its own scratch worktree and the titles of the changes earlier
rounds already produced for that property (so that it looks for different mechanisms). Nothing from /verif is shown to it.
Import the results with `SEEDOUT=OUTDIR SEED_OFFSET=<2*(ROUND-1)> python -m vf.seedin <ID> 1 <ID> 2 ...`.
"""
from __future__ import annotations

import json
import sys
from pathlib import Path

ROOT = Path(__file__).resolve().parent.parent

TEMPLATE = """You are helping evaluate a verification framework by playing the role of a developer who introduces a subtle regression.

Repository: gallia (Python automotive pentesting framework: UDS codec, DoIP/HSFZ/line transports, virtual ECU, scanners).
Your private scratch git worktree of the repository: {wt}  (work ONLY there; never touch /repo or /verif, never read /verif; do not commit; do not use git stash).
Python interpreter with all dependencies: /venv/bin/python. To make Python import YOUR worktree instead of the installed copy, always set PYTHONPATH={wt}/src.
Existing test suite (must still pass with your change):
  cd {wt} && flock /tmp/gallia-tests.lock env PYTHONPATH={wt}/src /venv/bin/python -m pytest -q -p no:cacheprovider tests/pytest
(The flock is mandatory: the tests bind fixed TCP ports and other people run them concurrently.)

The semantic property to break:

{pid} - {title}

Statement: {statement}

Quantified over: {quant}

Relevant files: {files}


Task: produce TWO independent, realistic source changes (each a separate patch against the clean worktree, touching only files under src/gallia) such that each one
 (a) still imports/compiles and passes the existing test suite unchanged,
 (b) breaks the property above, and
 (c) needs something specific to manifest - a particular input shape or boundary value, a multi-step sequence of operations, a particular interleaving/timing, a fault at a particular point, or two cooperating code sites that each look fine alone - NOT something that every ordinary use would expose at once (e.g. do not break every request of the most common kind).
Make them look like plausible refactoring/optimisation/bug-fix mistakes a maintainer could really make, and make the two changes differ in kind and location.

For each change N in {{1,2}} write into {out}/{pid}/N/ :
  - patch.diff   : `git diff` output against the clean worktree (apply-able with `git apply` from the repo root)
  - demo.py      : a small standalone program (run as: PYTHONPATH=<repo>/src /venv/bin/python demo.py) that exits 0 on the clean tree and exits non-zero (with a short message) when the patch is applied. It must only use the repository's public behaviour (no network beyond localhost/in-memory; prefer in-memory streams or fake transports; avoid TCP ports 6801 and 1234; finish in < 30 s).
  - notes.md     : first line a one-line title "# {pid} / change N - <what is broken>", then which behaviour is broken, what exactly is needed for it to manifest, why the existing tests do not notice.
Verify all of it yourself: demo passes on the clean worktree, fails with the patch; test suite passes with the patch. After producing each patch, restore the worktree to clean (git checkout -- . ) so that patches are independent. Leave the worktree clean at the end.
Your final answer: for each change one line saying what it breaks and what it needs to manifest, plus the results of your own verification runs.


Ideas that were already used by someone else for this property - do NOT repeat them or close variants, find different mechanisms and different code sites:
{used}
Prefer changes whose effect is narrow (a boundary value, one state of a multi-step protocol, an interaction of two features, an unusual but legal configuration, state that leaks from one operation / object / process-wide cache into a later one, a particular cancellation or timeout point) over changes that alter common behaviour. Every part of the statement is fair game, also the clauses towards its end.
"""


def main() -> None:
    rnd, out, wtbase = int(sys.argv[1]), sys.argv[2], sys.argv[3]
    ids = [a.upper() for a in sys.argv[4:]]
    props = [json.loads(l) for l in (ROOT / "properties.jsonl").read_text().splitlines() if l.strip()]
    Path(out).mkdir(parents=True, exist_ok=True)
    for p in props:
        pid = p["id"]
        if ids and pid not in ids:
            continue
        used = []
        for d in sorted((ROOT / "seeded").glob(f"{pid}-*")):
            try:
                m = json.loads((d / "meta.json").read_text())
            except Exception:  # noqa: BLE001
                continue
            first = str(m.get("needs_to_manifest", "")).strip().splitlines()[:3]
            used.append(" - " + " / ".join(x.strip("# ").strip() for x in first if x.strip())[:300])
        text = TEMPLATE.format(wt=f"{wtbase}/{pid}", pid=pid, title=p["title"], statement=p["statement"], quant=p["quantifier"]["text"],
                               files=", ".join(p["anchors"]["files"]), out=out, used="\n".join(used) or " (none)")
        (Path(out) / f"{pid}.prompt").write_text(text)
        (Path(out) / pid).mkdir(exist_ok=True)
    print(f"round {rnd}: prompts in {out}")


if __name__ == "__main__":
    main()
