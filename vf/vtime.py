"""Virtual-time asyncio loop and in-memory stream doubles.

VirtualTimeLoop: a SelectorEventLoop whose clock is a counter. When no callback is ready the
selector does not block: the clock jumps to the next scheduled timer. Runs are therefore a pure
function of the scheduled delays (asyncio's ready queue is FIFO); a 20 s protocol timeout costs
microseconds. Must not be combined with code that hands work to threads (aiosqlite).
"""

from __future__ import annotations

import asyncio
import selectors
from typing import Any, Awaitable, Callable


class Stalled(Exception):
    """The loop has nothing to run and no timer: the awaited operation blocks forever."""


class _VSelector(selectors.DefaultSelector):
    def __init__(self, loop: "VirtualTimeLoop") -> None:
        super().__init__()
        self._vloop = loop

    def select(self, timeout: float | None = None):  # type: ignore[override]
        # Never block: real FDs (the self-pipe) are polled with timeout 0.
        events = super().select(0)
        if events:
            return events
        if timeout is None:
            # no ready callbacks, no timers: deadlock in virtual time
            self._vloop._stalled = True
            if self._vloop._on_stall is not None:
                self._vloop._on_stall()
            else:
                self._vloop.stop()
            return []
        if timeout > 0:
            self._vloop._vnow += timeout
        return []


class VirtualTimeLoop(asyncio.SelectorEventLoop):
    def __init__(self) -> None:
        self._vnow = 0.0
        self._stalled = False
        self._on_stall: Callable[[], None] | None = None
        super().__init__(_VSelector(self))
        # asyncio rounds timers with clock resolution; keep it tiny and deterministic
        self._clock_resolution = 1e-9

    def time(self) -> float:
        return self._vnow


SPINS = [0]  # busy loops reported by run_virtual() in this process


class _Spinning(BaseException):
    """The code under test keeps the event loop busy without ever waiting for anything (virtual time stands still)."""


def run_virtual(coro_fn: Callable[[], Awaitable[Any]], max_virtual: float = 1e7, cpu_budget: float = 60.0) -> tuple[str, Any, float]:
    """Run coro_fn() to completion under virtual time.

    Returns (status, value, virtual_duration) with status in {"ok", "exc", "stalled", "overrun"}.
    "stalled": nothing left to run and the coroutine did not finish (blocks forever).
    "overrun": virtual clock exceeded max_virtual (unbounded waiting), or the run used up cpu_budget seconds of CPU time of this
    process without finishing (a busy loop that never waits: virtual time cannot advance; ITIMER_VIRTUAL, so machine load does not count).
    """
    import signal
    import threading

    armed = False
    live = {"on": True}
    if threading.current_thread() is threading.main_thread() and signal.getitimer(signal.ITIMER_VIRTUAL)[0] == 0:
        def on_alarm(signum: int, frame: Any) -> None:
            if live["on"]:
                raise _Spinning()

        old_handler = signal.signal(signal.SIGVTALRM, on_alarm)
        # repeating: an exception raised inside a GC callback or a __del__ is swallowed by the interpreter - the next tick lands
        signal.setitimer(signal.ITIMER_VIRTUAL, cpu_budget, 0.25)
        armed = True
    try:
        res = _run_virtual(coro_fn, max_virtual)
        live["on"] = False
        if res[0] == "exc" and isinstance(res[1], _Spinning):  # the alarm went off inside a task, which handed it on as its result
            SPINS[0] += 1
            return "overrun", None, res[2]
        return res
    except _Spinning:
        live["on"] = False
        SPINS[0] += 1
        try:
            asyncio.set_event_loop(None)
        except Exception:  # noqa: BLE001
            pass
        return "overrun", None, -1.0
    finally:
        if armed:
            signal.setitimer(signal.ITIMER_VIRTUAL, 0)
            signal.signal(signal.SIGVTALRM, old_handler)


def _run_virtual(coro_fn: Callable[[], Awaitable[Any]], max_virtual: float = 1e7) -> tuple[str, Any, float]:
    loop = VirtualTimeLoop()
    asyncio.set_event_loop(loop)
    try:
        main = loop.create_task(coro_fn())
        state = {"kind": None}

        def on_stall() -> None:
            state["kind"] = "stalled"
            loop.stop()

        loop._on_stall = on_stall

        def watchdog() -> None:
            if main.done():
                return
            if loop.time() > max_virtual:
                state["kind"] = "overrun"
                loop.stop()
                return
            loop.call_later(max_virtual / 4 + 1, watchdog)

        loop.call_later(max_virtual / 4 + 1, watchdog)
        main.add_done_callback(lambda _f: loop.stop())
        loop.run_forever()
        dur = loop.time()
        if main.done():
            if main.cancelled():
                return "exc", asyncio.CancelledError(), dur
            e = main.exception()
            if e is not None:
                return "exc", e, dur
            return "ok", main.result(), dur
        kind = state["kind"] or "stalled"
        # clean up: cancel everything that is still pending
        _cancel_all(loop)
        return kind, None, dur
    finally:
        try:
            _cancel_all(loop)
            loop._on_stall = lambda: loop.stop()
            loop.run_until_complete(loop.shutdown_asyncgens())
        except BaseException:  # noqa: BLE001
            pass
        asyncio.set_event_loop(None)
        loop.close()


def _cancel_all(loop: asyncio.AbstractEventLoop) -> None:
    tasks = [t for t in asyncio.all_tasks(loop) if not t.done()]
    for t in tasks:
        t.cancel()
    if tasks:
        loop._on_stall = lambda: loop.stop()  # type: ignore[attr-defined]

        async def _gather() -> None:
            await asyncio.gather(*tasks, return_exceptions=True)

        try:
            loop.run_until_complete(asyncio.wait_for(_gather(), 5))
        except BaseException:  # noqa: BLE001
            pass


class MemWriter:
    """Duck-typed asyncio.StreamWriter recording (virtual_time, bytes)."""

    def __init__(self, on_write: Callable[[bytes], None] | None = None) -> None:
        self.log: list[tuple[float, bytes]] = []
        self.closed = False
        self.fail: BaseException | None = None
        self.on_write = on_write
        self.close_calls = 0
        self.closed_exc: BaseException | None = None  # what the connection was lost with (a real wait_closed() re-raises it)

    def write(self, data: bytes) -> None:
        if self.fail is not None:
            raise self.fail
        loop = asyncio.get_event_loop()
        self.log.append((loop.time(), bytes(data)))
        if self.on_write is not None:
            self.on_write(bytes(data))

    def writelines(self, lines: Any) -> None:
        for l in lines:
            self.write(l)

    async def drain(self) -> None:
        if self.fail is not None:
            raise self.fail
        await asyncio.sleep(0)

    def close(self) -> None:
        self.close_calls += 1
        self.closed = True

    async def wait_closed(self) -> None:
        # a real StreamWriter.wait_closed() is an await point: a task that was cancelled by its own close() gets the
        # CancelledError here
        await asyncio.sleep(0)
        if self.closed_exc is not None:
            raise self.closed_exc

    def is_closing(self) -> bool:
        return self.closed

    def get_extra_info(self, name: str, default: Any = None) -> Any:
        if name == "peername":
            return ("192.0.2.1", 13400)
        if name == "sockname":
            return ("192.0.2.2", 40000)
        return default

    def can_write_eof(self) -> bool:
        return False

    @property
    def transport(self) -> Any:
        return self

    def abort(self) -> None:
        self.closed = True

    def data(self) -> bytes:
        return b"".join(b for _, b in self.log)


def feed_later(reader: asyncio.StreamReader, delay: float, data: bytes | None = None, eof: bool = False,
               exc: BaseException | None = None) -> None:
    loop = asyncio.get_event_loop()

    def do() -> None:
        if exc is not None:
            reader.set_exception(exc)
        elif eof:
            reader.feed_eof()
        elif data:
            reader.feed_data(data)

    if delay <= 0:
        do()
    else:
        loop.call_later(delay, do)


def split_at(data: bytes, cuts: list[int]) -> list[bytes]:
    out = []
    prev = 0
    for c in sorted(set(c for c in cuts if 0 < c < len(data))):
        out.append(data[prev:c])
        prev = c
    out.append(data[prev:])
    return [s for s in out if s]
