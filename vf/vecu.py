"""Shared driver for the virtual-ECU properties (C13, C14, C16): model generation, abstract request histories that are
resolved against the model at run time, the reference ISO 14229-1 default-response chain and a reference state tracker."""

from __future__ import annotations

import asyncio
import os
from typing import Any

from hypothesis import strategies as st

from vf import refcodec

# ISO 14229-1 services whose first parameter is a sub-function byte and which gallia models
SUBFN_SIDS = {0x10, 0x11, 0x27, 0x28, 0x3E, 0x85, 0x19, 0x2C, 0x31}
# services whose handlers in the random server may answer 0x13 for a well-formed request by design
RANDOM_FORMAT_SIDS = {0x31, 0x2E, 0x2F}
SWITCHES = ["default_response_if_service_not_supported", "default_response_if_missing_sub_function",
            "default_response_if_sub_function_not_supported", "default_response_if_incorrect_format",
            "default_response_if_session_change", "default_response_if_session_read", "default_response_if_tester_present",
            "default_response_if_none", "default_response_if_suppress"]


def valid_alfid(x: int) -> bool:
    return (x & 0xF) != 0 and (x >> 4) != 0


def ref_request_wellformed(b: bytes) -> bool | None:
    """True/False for services the reference codec models (ISO layouts), None for everything else."""
    n = len(b)
    sid = b[0]
    if sid in (0x10, 0x11):
        return n == 2
    if sid == 0x27:
        if n < 2:
            return False
        return n >= 2 if (b[1] & 0x7F) % 2 == 1 else n >= 3
    if sid == 0x28:
        return n == 3
    if sid == 0x3E:
        return n == 2
    if sid == 0x85:
        return n >= 2
    if sid == 0x22:
        return n >= 3 and (n - 1) % 2 == 0
    if sid == 0x23:
        return n >= 4 and valid_alfid(b[1]) and n == 2 + (b[1] & 0xF) + (b[1] >> 4)
    if sid == 0x2C:
        if n < 2:
            return False
        sf = b[1] & 0x7F
        if sf == 1:
            return n >= 8 and n % 4 == 0
        if sf == 2:
            if n < 7 or not valid_alfid(b[4]):
                return False
            g = (b[4] & 0xF) + (b[4] >> 4)
            return (n - 5) % g == 0 and n - 5 >= g
        if sf == 3:
            return n in (2, 4)
        return None
    if sid == 0x2E:
        return n >= 4
    if sid == 0x3D:
        if n < 5 or not valid_alfid(b[1]):
            return False
        need = 2 + (b[1] & 0xF) + (b[1] >> 4)
        if n == need:
            return None  # no data byte: ISO requires one, gallia accepts; abstain
        return n > need
    if sid == 0x14:
        return n == 4
    if sid == 0x19:
        if n < 2:
            return False
        sf = b[1] & 0x7F
        if sf in (0x01, 0x02, 0x0F, 0x11, 0x12, 0x13):
            return n == 3
        if sf in (0x0A, 0x0B, 0x0C, 0x0D, 0x0E, 0x15):
            return n == 2
        if sf == 0x06:
            return n == 6
        return None
    if sid == 0x2F:
        return n >= 4
    if sid == 0x31:
        if n < 2:
            return False
        return n >= 4 if (b[1] & 0x7F) in (1, 2, 3) else None
    if sid in (0x34, 0x35):
        return n >= 4 and valid_alfid(b[2]) and n == 3 + (b[2] & 0xF) + (b[2] >> 4)
    if sid == 0x36:
        return n >= 2
    if sid == 0x37:
        return n >= 1
    return None


class RefState:
    def __init__(self) -> None:
        self.session = 1
        self.level: int | None = None

    def as_tuple(self) -> tuple[int, int | None]:
        return (self.session, self.level)


def model_dict(server: Any) -> dict[int, dict[int, list[int] | None]]:
    return {int(s): {int(k): (None if v is None else [int(x) for x in v]) for k, v in svcs.items()}
            for s, svcs in server.services.items()}


def ref_expect(model: dict[int, dict[int, list[int] | None]], st_: RefState, b: bytes, off: set[str]) -> dict[str, Any]:
    """Reference default-response chain. Returns {"reply": bytes | "POSITIVE" | "ANY", "rule": str}.
    reply bytes = exact expected PDU; "POSITIVE" = a positive reply of that service is certain; "ANY" = only structural claims."""
    sid = b[0]
    cur = model.get(st_.session, {})
    on = lambda name: f"default_response_if_{name}" not in off  # noqa: E731
    # The chain is a sequence of independent rules: a disabled rule is skipped and the next enabled one decides ("disabling one
    # behaviour only removes that rule"). Rules 1-4 are predicted exactly also behind a disabled rule that would have decided;
    # what the service handlers make of a request that a disabled structural rule let through is not predicted (undecided).
    undecided = False
    # 1 service not supported
    if sid not in cur:
        if on("service_not_supported"):
            code = 0x7F if any(sid in s for s in model.values()) else 0x11
            return {"reply": bytes([0x7F, sid, code]), "rule": "service-not-supported" if code == 0x11 else "service-not-in-session"}
        undecided = True
    # 2 missing sub-function
    if sid in SUBFN_SIDS and len(b) < 2:
        if on("missing_sub_function"):
            return {"reply": bytes([0x7F, sid, 0x13]), "rule": "missing-sub-function"}
        undecided = True
    # 3 sub-function not supported
    if sid in SUBFN_SIDS and sid != 0x31 and len(b) >= 2:
        sf = b[1] & 0x7F
        here = cur.get(sid)
        if here is None or sf not in here:
            if on("sub_function_not_supported"):
                other = any(sid in s and s[sid] is not None and sf in s[sid] for k, s in model.items() if k != st_.session)
                return {"reply": bytes([0x7F, sid, 0x7E if other else 0x12]), "rule": "sub-function-not-in-session" if other else "sub-function-not-supported"}
            undecided = True
    # 4 incorrect format
    wf = ref_request_wellformed(b)
    if wf is False:
        if on("incorrect_format"):
            return {"reply": bytes([0x7F, sid, 0x13]), "rule": "incorrect-format"}
        undecided = True
    if undecided or wf is None:
        return {"reply": "ANY", "rule": "undecided" if undecided else "unmodelled-format", "wf": wf}
    # 5.. well-formed request of a supported service/sub-function
    if sid == 0x10 and on("session_change"):
        return {"reply": bytes([0x50, b[1] & 0x7F]), "rule": "session-change", "wf": True}
    if sid == 0x22 and len(b) == 3 and b[1:3] == b"\xf1\x86" and on("session_read"):
        return {"reply": bytes([0x62, 0xF1, 0x86, st_.session]), "rule": "session-read", "wf": True}
    if sid == 0x3E and on("tester_present"):
        return {"reply": b"\x7e\x00", "rule": "tester-present", "wf": True}
    if sid == 0x11:
        return {"reply": "POSITIVE", "rule": "ecu-reset", "wf": True}
    return {"reply": "ANY", "rule": "service-handler", "wf": True}


def ref_update_state(st_: RefState, b: bytes, reply_positive_sid: int | None, reply: bytes | None) -> None:
    """ISO state changes: session on positive DSC, security level on positive sendKey, reset on positive ECUReset.
    reply_positive_sid: service id of the positive reply that the server produced (also when it was suppressed)."""
    if reply_positive_sid == 0x10:
        st_.session = b[1] & 0x7F
        st_.level = None
    elif reply_positive_sid == 0x11:
        st_.session = 1
        st_.level = None
    elif reply_positive_sid == 0x27 and (b[1] & 0x7F) % 2 == 0:
        st_.level = (b[1] & 0x7F) - 1


# ---------------------------------------------------------------------------------------------
# model parameters and abstract histories

ALL_SERVICE_NAMES = ["DiagnosticSessionControl", "EcuReset", "SecurityAccess", "CommunicationControl", "TesterPresent",
                     "ControlDTCSetting", "ReadDataByIdentifier", "ReadMemoryByAddress", "DynamicallyDefineDataIdentifier",
                     "WriteDataByIdentifier", "WriteMemoryByAddress", "ClearDiagnosticInformation", "ReadDTCInformation",
                     "InputOutputControlByIdentifier", "RoutineControl", "RequestDownload", "RequestUpload", "TransferData",
                     "RequestTransferExit", "Authentication", "ResponseOnEvent", "LinkControl"]


@st.composite
def params_s(draw) -> dict[str, Any]:
    kind = draw(st.sampled_from(["default", "default", "dense", "custom"]))
    if kind == "default":
        return {}
    if kind == "dense":
        return {"p_session": draw(st.sampled_from([0.3, 1.0])), "p_service": draw(st.sampled_from([0.5, 1.0])),
                "p_sub_function": draw(st.sampled_from([0.05, 0.5])), "p_identifier": draw(st.sampled_from([0.005, 0.5, 1.0])),
                "p_correct_payload_format": draw(st.sampled_from([0.1, 1.0])),
                "optional_sessions": draw(st.sampled_from([[2, 3, 4], [2, 3, 4, 0x40, 0x41, 0x60, 0x7E]]))}
    p = lambda: draw(st.sampled_from([0.0, 1.0, 0.05, 0.5]))  # noqa: E731
    out: dict[str, Any] = {"p_session": p(), "p_service": p(), "p_sub_function": p(), "p_identifier": p(),
                           "p_correct_payload_format": p(), "p_dtc_status_mask": p()}
    # the default session is the root of every model wherever (and whether) the list names it
    out["mandatory_sessions"] = draw(st.sampled_from([[1], [1, 2], [1, 3, 0x7E], [1, 2, 3, 4], [2, 1], [0x40, 3, 1], [3], [1, 2, 3, 2], [2, 3, 2]]))
    out["optional_sessions"] = draw(st.sampled_from([[], [2, 3, 4], [5, 0x40, 0x7E], list(range(2, 0x7F))]))
    out["mandatory_sessions"] = [s for s in out["mandatory_sessions"]]
    out["optional_sessions"] = [s for s in out["optional_sessions"] if s not in out["mandatory_sessions"]]
    mand = draw(st.sampled_from([["DiagnosticSessionControl"], ["DiagnosticSessionControl", "TesterPresent", "ReadDataByIdentifier"],
                                 ["DiagnosticSessionControl", "SecurityAccess", "EcuReset", "RoutineControl"], ALL_SERVICE_NAMES[:19]]))
    out["mandatory_services"] = mand
    # the optional list may name mandatory services as well (as the default optional list does once --mandatory-services is
    # extended): mandatory wins
    overlap = draw(st.booleans())
    out["optional_services"] = [s for s in draw(st.sampled_from([[], ALL_SERVICE_NAMES, ALL_SERVICE_NAMES[:10]])) if overlap or s not in mand]
    return out


op = st.one_of(
    st.tuples(st.just("dsc_offered"), st.integers(0, 50), st.booleans()),
    st.tuples(st.just("dsc_offered"), st.integers(0, 50), st.booleans()),
    st.tuples(st.just("dsc_any"), st.integers(0, 0x7F), st.booleans()),
    st.tuples(st.just("raw"), st.binary(min_size=1, max_size=12)),
    st.tuples(st.just("sid_payload"), st.integers(0, 255), st.binary(max_size=8)),
    # requests that reach the stateful service handlers when the service is offered
    st.tuples(st.just("raw"), st.sampled_from([b"\x19\x02\xff", b"\x19\x02\x08", b"\x19\x02\x00", b"\x14\xff\xff\xff", b"\x22\xf1\x90",
                                               b"\x2e\xf1\x90\x01", b"\x31\x01\xff\x00", b"\x2f\x12\x34\x03\x01", b"\x11\x04", b"\x11\x01"])),
    st.tuples(st.just("svc_offered"), st.integers(0, 50), st.binary(max_size=6)),
    st.tuples(st.just("svc_offered_sf"), st.integers(0, 50), st.integers(0, 50), st.booleans(), st.binary(max_size=5)),
    st.tuples(st.just("valid"), refcodec.request_case()),
    st.tuples(st.just("seedkey"), st.integers(0, 50), st.booleans()),
    # macro: requestSeed, sendKey (correct key), then a session change / reset / nothing
    st.tuples(st.just("unlock"), st.integers(0, 50), st.sampled_from(["dsc_same", "dsc_same", "dsc_offered", "reset", "f186"]), st.booleans()),
    st.tuples(st.just("reset"), st.integers(0, 7), st.booleans()),
    st.tuples(st.just("reboot"), st.integers(0, 50), st.integers(0, 2)),
    st.tuples(st.just("f186")),
    st.tuples(st.just("tp"), st.booleans()),
    st.tuples(st.just("repeat")),
    # the tester stays silent for a while (only drivers that own the server's clock act on it; resolve() yields no request):
    # more than 10 s of silence return the virtual ECU to its default state (the S3 server timer)
    st.tuples(st.just("idle"), st.sampled_from([3.0, 12.0, 12.0, 60.0])),
    # macro: requestSeed, silence (optionally kept "alive" by TesterPresent afterwards), then a sendKey for that level
    st.tuples(st.just("stalekey"), st.integers(0, 50), st.sampled_from([3.0, 12.0, 12.0]), st.booleans()),
    # macro: enter a session, keep it alive for 12-30 s with suppressed TesterPresent every 4-6 s, then ask which session is active
    st.tuples(st.just("keepalive"), st.integers(0, 50), st.integers(3, 5), st.sampled_from([4.0, 6.0])),
    # macro: requestSeed, one other request (which invalidates the seed unless it is an accepted TesterPresent), sendKey with that seed
    st.tuples(st.just("staleseed"), st.integers(0, 50), st.sampled_from(["tp", "tp", "tp80", "f186", "raw"])),
)


def expand(o: tuple[Any, ...]) -> list[tuple[Any, ...]]:
    """macro ops -> elementary ops"""
    if o[0] == "reboot":
        # reset through an offered sub-function, then poll with the same request until the ECU is back (as wait_for_ecu does)
        poll = ("tp", False) if o[2] == 0 else ("f186",) if o[2] == 1 else ("raw", b"\x22\xf1\x90")
        return [("reset_offered", o[1]), poll, poll, poll]
    if o[0] == "staleseed":
        mid = {"tp": ("tp", False), "tp80": ("tp", True), "f186": ("f186",), "raw": ("raw", b"\x22\xf1\x90")}[o[2]]
        return [("seedkey_seed", o[1]), mid, ("stalekey_key", o[1])]
    if o[0] == "keepalive":
        return [("dsc_offered", o[1], False)] + [e for _ in range(o[2]) for e in (("idle", o[3]), ("tp", True))] + [("idle", o[3]), ("f186",)]
    if o[0] == "stalekey":
        return [("seedkey_seed", o[1]), ("idle", o[2])] + ([("tp", False)] if o[3] else []) + [("stalekey_key", o[1])]
    if o[0] == "unlock":
        then = {"dsc_same": ("dsc_same", o[3]), "dsc_offered": ("dsc_offered", o[1], o[3]), "reset": ("reset", o[1], o[3]),
                "f186": ("f186",)}[o[2]]
        return [("seedkey_seed", o[1]), ("seedkey", o[1], False), then]
    return [o]


def resolve(o: tuple[Any, ...], model: dict[int, dict[int, list[int] | None]], session: int, prev: bytes | None,
            last_seed: tuple[int, bytes] | None, seen_seed: tuple[int, bytes] | None = None) -> bytes:
    """Abstract op -> request bytes, a pure function of (op, model, current state)."""
    k = o[0]
    cur = model.get(session, {})
    if k == "dsc_offered":
        offered = cur.get(0x10) or [1]
        return bytes([0x10, offered[o[1] % len(offered)] | (0x80 if o[2] else 0)])
    if k == "reset_offered":
        sfs = cur.get(0x11) or [1]
        return bytes([0x11, sfs[o[1] % len(sfs)]])
    if k == "dsc_same":
        return bytes([0x10, session | (0x80 if o[1] else 0)])
    if k == "seedkey_seed":
        sfs = [x for x in (cur.get(0x27) or []) if x % 2 == 1] or [1]
        return bytes([0x27, sfs[o[1] % len(sfs)]])
    if k == "dsc_any":
        return bytes([0x10, o[1] | (0x80 if o[2] else 0)])
    if k == "raw":
        return o[1]
    if k == "sid_payload":
        return bytes([o[1]]) + o[2]
    if k == "svc_offered":
        sids = sorted(cur) or [0x10]
        return bytes([sids[o[1] % len(sids)]]) + o[2]
    if k == "svc_offered_sf":
        sids = sorted(s for s in cur if cur[s]) or [0x10]
        sid = sids[o[1] % len(sids)]
        sfs = cur.get(sid) or [1]
        return bytes([sid, sfs[o[2] % len(sfs)] | (0x80 if o[3] else 0)]) + o[4]
    if k == "valid":
        c = o[1]
        return refcodec.REQ[c["cls"]].encode(c["kw"])
    if k == "seedkey":
        if last_seed is not None:
            sf, seed = last_seed
            key = seed if not o[2] else (seed + b"\x01")
            return bytes([0x27, sf + 1]) + (key or b"")
        sfs = [x for x in (cur.get(0x27) or []) if x % 2 == 1] or [1]
        return bytes([0x27, sfs[o[1] % len(sfs)]])
    if k == "reset":
        return bytes([0x11, (o[1] % 5 + 1) | (0x80 if o[2] else 0)])
    if k == "f186":
        return b"\x22\xf1\x86"
    if k == "tp":
        return bytes([0x3E, 0x80 if o[1] else 0x00])
    if k == "repeat":
        return prev or b"\x3e\x00"
    if k in ("idle", "overlap"):
        return b""
    if k == "stalekey_key":
        if last_seed is not None:
            return bytes([0x27, last_seed[0] + 1]) + (last_seed[1] or b"\x00")
        if seen_seed is not None:
            # the tester still holds the key for a seed the ECU has invalidated in the meantime
            return bytes([0x27, seen_seed[0] + 1]) + (seen_seed[1] or b"\x00")
        sfs = [x for x in (cur.get(0x27) or []) if x % 2 == 1] or [1]
        return bytes([0x27, sfs[o[1] % len(sfs)] + 1, 0x01, 0x02])
    raise AssertionError(k)


def make_server(seed: int, params: dict[str, Any], off: list[str]) -> Any:
    from gallia.services.uds.server import RandomUDSServer, UDSServer

    if os.environ.get("VF_VIA_COMMAND") == "1":
        # the way a user starts it: gallia script vecu rng --seed S <params> (command layer builds the server)
        from gallia.commands.script.vecu import RngVirtualECU, RngVirtualECUConfig

        cfg = RngVirtualECUConfig(target="unix-lines:///tmp/vf-unused.sock", seed=seed, **params, **{k: False for k in off})
        return RngVirtualECU(cfg)._server()

    if os.environ.get("VF_REUSE_PARAMS") == "1":
        # one argument object per distinct argument set, shared by all servers of this process (a test bench that starts several
        # ECUs from one configuration object): an ECU must not depend on what earlier ECUs did with "its" arguments
        import json as _json

        key = _json.dumps(params, sort_keys=True, default=str)
        if key not in _RP_CACHE:
            _RP_CACHE[key] = RandomUDSServer.RandomnessParameters(**params)
        rp = _RP_CACHE[key]
    else:
        rp = RandomUDSServer.RandomnessParameters(**params) if params else None
    beh = UDSServer.Behavior(**{k: False for k in off}) if off else None
    return RandomUDSServer(seed, rp, beh)


_RP_CACHE: dict[str, Any] = {}


def next_last_seed(last_seed: tuple[int, bytes] | None, b: bytes, r: bytes | None) -> tuple[int, bytes] | None:
    """What the virtual ECU remembers about an outstanding seed after answering request b with r: a requestSeed reply sets
    it, a positive (possibly suppressed) TesterPresent keeps it, every other answered request clears it."""
    if r is not None and len(r) >= 2 and r[0] == 0x67 and r[1] % 2 == 1:
        return (r[1], r[2:])
    if b[0] == 0x3E and (r == b"\x7e\x00" or (r is None and b == b"\x3e\x80")):
        return last_seed
    if r is None and not (b[0] in SUBFN_SIDS and len(b) >= 2 and b[1] >= 0x80):
        return last_seed  # no response object at all: nothing was updated
    return None


_CLOCK = {"offset": 0.0, "installed": False}


def _install_clock() -> None:
    """The server measures inactivity with time.time(): give the module a clock that the driver can move forward."""
    if _CLOCK["installed"]:
        return
    import time as _time

    import gallia.services.uds.server as srv

    srv.time = lambda: _time.time() + _CLOCK["offset"]  # type: ignore[attr-defined]
    _CLOCK["installed"] = True


class Driver:
    """Runs a history against a fresh RandomUDSServer through UDSServerTransport.handle_request on a private loop."""

    def __init__(self, seed: int, params: dict[str, Any], off: list[str]) -> None:
        from gallia.services.uds.server import UDSServerTransport
        from gallia.transports import TargetURI

        _install_clock()
        self.loop = asyncio.new_event_loop()
        self.server = make_server(seed, params, off)
        self.loop.run_until_complete(self.server.setup())
        self.transport = UDSServerTransport(self.server, TargetURI("tcp-lines://127.0.0.1:1"))
        self.model = model_dict(self.server)
        self.prev: bytes | None = None
        self.last_seed: tuple[int, bytes] | None = None
        self.seen_seed: tuple[int, bytes] | None = None  # the most recent seed the ECU handed out, valid or not

    def request(self, b: bytes) -> tuple[bytes | None, BaseException | None]:
        try:
            r, _ = self.loop.run_until_complete(self.transport.handle_request(b))
        except BaseException as e:  # noqa: BLE001
            return None, e
        self.prev = b
        self.last_seed = next_last_seed(self.last_seed, b, r)
        if self.last_seed is not None:
            self.seen_seed = self.last_seed
        return r, None

    def idle(self, seconds: float) -> bool:
        """Let `seconds` pass without a request. Returns True if that is longer than the server's inactivity limit (10 s)."""
        _CLOCK["offset"] += seconds
        if seconds > 10:
            self.last_seed = None
        return seconds > 10

    def close(self) -> None:
        try:
            self.loop.run_until_complete(self.server.teardown())
        finally:
            self.loop.close()
