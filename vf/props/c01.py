"""C01 - UDS requests serialise to the ISO 14229-1 layout and parse back losslessly."""

from __future__ import annotations

import asyncio
import inspect
from typing import Any

from hypothesis import strategies as st

from vf import refcodec
from vf.core import Collector, run_given, shrink_bucket, unjson

PROPERTY = "C01"
LEVEL = "exploration"
RULE = (
    "Request classes are discovered at run time (UDSService registry + public UDSRequest subclasses); for each class with a "
    "reference-codec entry, constructor arguments are generated in the documented ranges (boundary-biased integers, both suppress "
    "settings, address/size widths 1..15 with explicit or automatic ALFID, 1..n repeated groups, records of 0..4095 bytes). "
    "Paths: valid (construct, compare .pdu with the reference ISO encoding, from_pdu and parse_dynamic round trip, parse again after the first result was modified, caller's lists changed after construction), "
    "bad (exactly one parameter pushed out of range: must raise at construction or at .pdu), client (UDSClient service method "
    "with the user's arguments over a capture transport: bytes written must equal the reference encoding). "
    "Non-trivial: an optional/variable part is non-default (suppress bit, non-empty record, >=2 groups, explicit ALFID, boundary "
    "value). Distinct by (path, class, reference PDU / mutation)."
)
ASSUMPTIONS = [
    "reference encoder written from the ISO 14229-1 message layouts (vf/refcodec.py), independent of gallia's classes",
    "for InputOutputControlByIdentifier the split between controlOptionRecord and controlEnableMaskRecord is not recoverable "
    "from bytes (stated in gallia's source): the concatenation is compared",
    "services without typed request classes (0x29, 0x83, 0x84, 0x86, 0x87, 0x24, 0x2A, 0x38) are out of scope",
]

CLIENT_METHOD = {
    "DiagnosticSessionControlRequest": "diagnostic_session_control", "ECUResetRequest": "ecu_reset",
    "RequestSeedRequest": "security_access_request_seed", "SendKeyRequest": "security_access_send_key",
    "CommunicationControlRequest": "communication_control", "TesterPresentRequest": "tester_present",
    "ControlDTCSettingRequest": "control_dtc_setting", "ReadDataByIdentifierRequest": "read_data_by_identifier",
    "ReadMemoryByAddressRequest": "read_memory_by_address", "DefineByIdentifierRequest": "define_by_identifier",
    "DefineByMemoryAddressRequest": "define_by_memory_address",
    "ClearDynamicallyDefinedDataIdentifierRequest": "clear_dynamically_defined_data_identifier",
    "WriteDataByIdentifierRequest": "write_data_by_identifier", "WriteMemoryByAddressRequest": "write_memory_by_address",
    "ClearDiagnosticInformationRequest": "clear_diagnostic_information",
    "ReportNumberOfDTCByStatusMaskRequest": "read_dtc_information_report_number_of_dtc_by_status_mask",
    "ReportDTCByStatusMaskRequest": "read_dtc_information_report_dtc_by_status_mask",
    "ReportMirrorMemoryDTCByStatusMaskRequest": "read_dtc_information_report_mirror_memory_dtc_by_status_mask",
    "ReportNumberOfMirrorMemoryDTCByStatusMaskRequest": "read_dtc_information_report_number_of_mirror_memory_dtc_by_status_mask",
    "ReportNumberOfEmissionsRelatedOBDDTCByStatusMaskRequest": "read_dtc_information_report_number_of_emissions_related_obd_dtc_by_status_mask",
    "ReportEmissionsRelatedOBDDTCByStatusMaskRequest": "read_dtc_information_report_emissions_related_obd_dtc_by_status_mask",
    "ReportDTCExtDataRecordByDTCNumberRequest": "report_dtc_extended_data_record_by_dtc_number",
    "InputOutputControlByIdentifierRequest": "input_output_control_by_identifier",
    "ReturnControlToECURequest": "input_output_control_by_identifier_return_control_to_ecu",
    "ResetToDefaultRequest": "input_output_control_by_identifier_reset_to_default",
    "FreezeCurrentStateRequest": "input_output_control_by_identifier_freeze_current_state",
    "ShortTermAdjustmentRequest": "input_output_control_by_identifier_short_term_adjustment",
    "StartRoutineRequest": "routine_control_start_routine", "StopRoutineRequest": "routine_control_stop_routine",
    "RequestRoutineResultsRequest": "routine_control_request_routine_results",
    "RequestDownloadRequest": "request_download", "RequestUploadRequest": "request_upload",
    "TransferDataRequest": "transfer_data", "RequestTransferExitRequest": "request_transfer_exit",
}


def discover() -> tuple[list[str], list[str]]:
    """(modelled, unmodelled) concrete request class names reachable from the registry or the public namespace."""
    from gallia.services.uds.core import service

    found: set[str] = set()
    for svc in service.UDSService._SERVICES.values():
        if svc.Request is not None:
            found.add(svc.Request.__name__)
        for v in vars(svc).values():
            if inspect.isclass(v) and getattr(v, "Request", None) is not None:
                found.add(v.Request.__name__)
    for n, v in vars(service).items():
        if inspect.isclass(v) and issubclass(v, service.UDSRequest) and not n.startswith("_") and not inspect.isabstract(v) \
                and v.__dict__.get("__init__") is not None or (inspect.isclass(v) and issubclass(v, service.UDSRequest)
                                                                and not n.startswith("_") and n.endswith("Request")
                                                                and getattr(v, "SERVICE_ID", None) is not None
                                                                and "ABC" not in [b.__name__ for b in v.__bases__]):
            found.add(n)
    found -= {"RawRequest", "UDSRequest", "SubFunctionRequest", "SpecializedSubFunctionRequest", "RoutineControlRequest"}
    modelled = sorted(n for n in found if n in refcodec.REQ)
    unmodelled = sorted(n for n in found if n not in refcodec.REQ)
    return modelled, unmodelled


def pub(o: Any) -> dict[str, Any]:
    return {k: v for k, v in vars(o).items() if not k.startswith("_")}


def _norm_attrs(name: str, a: dict[str, Any]) -> dict[str, Any]:
    a = dict(a)
    if "control_option_record" in a and "control_enable_mask_record" in a:
        a["control_option_record+mask"] = a.pop("control_option_record") + a.pop("control_enable_mask_record")
    return a


class CaptureTransport:
    """BaseTransport double: records writes, reads time out at once."""

    def __init__(self) -> None:
        from gallia.transports import TargetURI

        self.mutex = asyncio.Lock()
        self.target = TargetURI("tcp-lines://192.0.2.9:1")
        self.is_closed = False
        self.written: list[bytes] = []

    async def write(self, data: bytes, timeout: float | None = None, tags: list[str] | None = None) -> int:
        self.written.append(bytes(data))
        return len(data)

    async def read(self, timeout: float | None = None, tags: list[str] | None = None) -> bytes:
        raise TimeoutError("capture transport")

    async def request_unsafe(self, data: bytes, timeout: float | None = None, tags: list[str] | None = None) -> bytes:
        await self.write(data, timeout, tags)
        return await self.read(timeout, tags)

    async def request(self, data: bytes, timeout: float | None = None, tags: list[str] | None = None) -> bytes:
        return await self.request_unsafe(data, timeout, tags)

    async def close(self) -> None:
        self.is_closed = True

    async def reconnect(self, timeout: float | None = None):  # noqa: ANN201
        return self


def check(case: dict[str, Any]) -> list[tuple[str, str]]:
    from gallia.services.uds.core import service
    from gallia.services.uds.core.client import UDSClient
    from gallia.services.uds.core.exception import MissingResponse

    name, kw, path = case["cls"], case["kw"], case["path"]
    spec = refcodec.REQ[name]
    cls = getattr(service, name)
    out: list[tuple[str, str]] = []
    P = f"C01/{name}"

    if path == "bad":
        label = case["bad"]
        mut = dict(spec.bad)[label](kw)
        if mut is None:
            return []
        try:
            obj = cls(**mut)
            pdu = obj.pdu
        except Exception:  # noqa: BLE001  (refusal is the required behaviour)
            return []
        return [(f"{P}/out-of-range-encoded/{label}", f"{name}(**{_short(mut)}) encoded to {pdu.hex()[:80]}")]

    ref = spec.encode(kw)
    if path == "client":
        cap = CaptureTransport()
        cl = UDSClient(cap, timeout=0.01, max_retry=0)  # type: ignore[arg-type]
        meth = getattr(cl, CLIENT_METHOD[name])
        sig = inspect.signature(meth)
        args = {k: v for k, v in kw.items() if k in sig.parameters}

        async def go() -> None:
            try:
                await meth(**args)
            except MissingResponse:
                pass

        try:
            asyncio.run(go())
        except Exception as e:  # noqa: BLE001
            return [(f"{P}/client-method-raises/{type(e).__name__}", f"client.{CLIENT_METHOD[name]}(**{_short(args)}) raised {type(e).__name__}: {e}")]
        if cap.written != [ref]:
            w = cap.written[0].hex()[:120] if cap.written else None
            return [(f"{P}/client-method-wrong-bytes", f"client.{CLIENT_METHOD[name]}(**{_short(args)}) wrote {w}, ISO layout is {ref.hex()[:120]}")]
        return []

    # ---- valid path
    try:
        obj = cls(**kw)
    except Exception as e:  # noqa: BLE001
        return [(f"{P}/valid-args-refused/{type(e).__name__}", f"{name}(**{_short(kw)}) raised {type(e).__name__}: {e}")]
    try:
        pdu = obj.pdu
    except Exception as e:  # noqa: BLE001
        return [(f"{P}/pdu-raises/{type(e).__name__}" + _shape(name, kw), f"{name}(**{_short(kw)}).pdu raised {type(e).__name__}: {e}")]
    if pdu != ref:
        return [(f"{P}/wrong-bytes" + _shape(name, kw, pdu, ref), f"{name}(**{_short(kw)}).pdu = {pdu.hex()[:100]}, ISO layout is {ref.hex()[:100]}")]
    # static parse back
    try:
        back = cls.from_pdu(pdu)
        if type(back) is not cls:
            out.append((f"{P}/from_pdu-other-class", f"{type(back).__name__}"))
        elif back.pdu != pdu:
            out.append((f"{P}/from_pdu-other-bytes", f"{back.pdu.hex()[:80]} != {pdu.hex()[:80]}"))
        elif _norm_attrs(name, pub(back)) != _norm_attrs(name, pub(obj)):
            out.append((f"{P}/from_pdu-other-fields", f"{_short(pub(back))} != {_short(pub(obj))}"))
    except Exception as e:  # noqa: BLE001
        out.append((f"{P}/from_pdu-raises/{type(e).__name__}" + _shape(name, kw), f"{name}.from_pdu({pdu.hex()[:80]}) raised {type(e).__name__}: {e}"))
    # dynamic parser
    try:
        dyn = service.UDSRequest.parse_dynamic(pdu)
        dyn.pdu
    except Exception as e:  # noqa: BLE001
        return out + [(f"{P}/parse_dynamic-raises/{type(e).__name__}", f"parse_dynamic({pdu.hex()[:80]}) raised {type(e).__name__}: {e}")]
    if isinstance(dyn, service.RawRequest):
        out.append((f"{P}/degraded-to-raw" + _shape(name, kw), f"parse_dynamic({pdu.hex()[:80]}) -> RawRequest"))
    else:
        if dyn.pdu != pdu or dyn.service_id != pdu[0]:
            out.append((f"{P}/parse_dynamic-other-bytes", f"{dyn.pdu.hex()[:80]} != {pdu.hex()[:80]}"))
        elif type(dyn) is cls and _norm_attrs(name, pub(dyn)) != _norm_attrs(name, pub(obj)):
            out.append((f"{P}/parse_dynamic-other-fields", f"{_short(pub(dyn))} != {_short(pub(obj))}"))
    # every parse yields the request the bytes describe, also after the holder of an earlier result has reused that object (changed
    # its fields)
    if not out and not isinstance(dyn, service.RawRequest):
        for k, v in list(vars(dyn).items()):
            try:
                if isinstance(v, bool):
                    continue
                if isinstance(v, int):
                    setattr(dyn, k, (v + 1) & 0xFF)
                elif isinstance(v, (bytes, bytearray)):
                    setattr(dyn, k, b"\xde\xad" + bytes(v))
                elif isinstance(v, list):
                    v.append(v[0] if v else 1)
            except Exception:  # noqa: BLE001
                pass
        try:
            again = service.UDSRequest.parse_dynamic(bytes(pdu))
            if bytes(again.pdu) != pdu or type(again) is not type(dyn):
                out.append((f"{P}/parse_dynamic-depends-on-earlier-results", f"second parse_dynamic({pdu.hex()[:80]}) -> {type(again).__name__} {bytes(again.pdu).hex()[:80]} "
                            "after the first result had been modified by its holder"))
        except Exception as e:  # noqa: BLE001
            out.append((f"{P}/parse_dynamic-depends-on-earlier-results", f"second parse_dynamic({pdu.hex()[:80]}) raised {type(e).__name__}: {e}"))
    # a request is fixed by the values it was built with: what the caller later does with the list objects it passed in (reuse for
    # the next request, append, overwrite) must not reach into the request
    lists = {k: list(v) for k, v in kw.items() if isinstance(v, list)}
    if lists and not out:
        try:
            held = cls(**{**kw, **lists})
            for v in lists.values():
                if v:
                    v[0] = (v[0] + 1) & 0xFF if isinstance(v[0], int) else v[0]
                v.extend(v[:1] or [1])
            if held.pdu != ref:
                out.append((f"{P}/aliases-caller-arguments", f"{name}(**{_short(kw)}): after the caller changed its own lists the request's pdu became "
                            f"{held.pdu.hex()[:80]} (was {ref.hex()[:80]})"))
        except Exception as e:  # noqa: BLE001
            out.append((f"{P}/aliases-caller-arguments", f"{name}(**{_short(kw)}): pdu raised {type(e).__name__} after the caller changed its own lists: {e}"))
    # a request whose fields are changed through its public attributes serialises the new values: it is the same request as one
    # built from them
    if not out:
        def tweak(v: Any) -> Any:
            if isinstance(v, bool) or v is None:
                return v
            if isinstance(v, int):
                return v ^ 1
            if isinstance(v, (bytes, bytearray)):
                return bytes(v[:-1]) + bytes([v[-1] ^ 1]) if v else v
            if isinstance(v, list):
                return [tweak(x) for x in v]
            return v

        kw2 = {k: (tweak(v) if k not in ("suppress_response",) else v) for k, v in kw.items()}
        try:
            a, b = cls(**kw), cls(**kw2)
            b_pdu = b.pdu
            if b_pdu != pdu and type(a) is type(b):
                settable = True
                for k, v in kw2.items():
                    if not hasattr(a, k):
                        settable = False
                        break
                    setattr(a, k, getattr(b, k))
                if settable and pub(a) == pub(b) and a.pdu != b_pdu:
                    out.append((f"{P}/pdu-ignores-changed-fields", f"{name}(**{_short(kw)}) with its fields set to {_short(kw2)}: pdu {a.pdu.hex()[:80]}, "
                                f"a request built from these values gives {b_pdu.hex()[:80]}"))
        except Exception:  # noqa: BLE001  (no setter, or the tweaked values are not a valid request: nothing to compare)
            pass
    # kwargs that are attributes must be exposed unchanged (list-valued attributes normalised)
    for k, v in kw.items():
        if v is None or not hasattr(obj, k):
            continue
        got = getattr(obj, k)
        exp = v
        if isinstance(got, list) and not isinstance(v, (list, tuple)):
            exp = [v]
        if isinstance(v, (list, tuple)):
            exp = list(v)
        if isinstance(v, bytes) and isinstance(got, int):
            exp = int.from_bytes(v, "big")
        if got != exp:
            out.append((f"{P}/attribute-differs/{k}", f"{k}: constructed with {_short(v)} exposes {_short(got)}"))
    return out


def _shape(name: str, kw: dict[str, Any], pdu: bytes | None = None, ref: bytes | None = None) -> str:
    """Narrow the bucket by the triggering shape so that different root causes in one class stay apart."""
    parts = []
    if kw.get("suppress_response"):
        parts.append("suppress")
    if name == "ClearDynamicallyDefinedDataIdentifierRequest":
        parts.append("did-none" if kw["dynamically_defined_data_identifier"] is None else "did-given")
    if pdu is not None and ref is not None:
        if len(pdu) != len(ref):
            parts.append("length")
        elif pdu[0] != ref[0]:
            parts.append("sid")
        else:
            i = next(j for j in range(len(ref)) if pdu[j] != ref[j])
            parts.append(f"byte{min(i, 6)}")
    return ("/" + "+".join(parts)) if parts else ""


def _short(x: Any) -> str:
    if isinstance(x, dict):
        return "{" + ", ".join(f"{k}={_short(v)}" for k, v in x.items()) + "}"
    if isinstance(x, (bytes, bytearray)):
        return x.hex()[:40] + (".." if len(x) > 20 else "") if x else "b''"
    if isinstance(x, list):
        return "[" + ",".join(_short(v) for v in x[:8]) + (",.." if len(x) > 8 else "") + "]"
    if isinstance(x, int) and not isinstance(x, bool):
        return hex(x)
    return repr(x)


def case_strategy(names: list[str], path: str):
    if path == "bad":
        opts = [(n, lbl) for n in names for lbl, _ in refcodec.REQ[n].bad]
        return st.sampled_from(opts).flatmap(
            lambda o: refcodec.REQ[o[0]].strategy.map(lambda kw: {"path": "bad", "cls": o[0], "kw": kw, "bad": o[1]}))
    return st.sampled_from(names).flatmap(lambda n: refcodec.REQ[n].strategy.map(lambda kw: {"path": path, "cls": n, "kw": kw}))


def shards(tier: str) -> list[dict[str, Any]]:
    modelled, _ = discover()
    per = 150 if tier == "quick" else 4000
    nsh = 14 if tier == "quick" else 16
    out = []
    chunks = [modelled[i::nsh - 4] for i in range(nsh - 4)]
    for ch in chunks:
        out.append({"path": "valid", "names": ch, "n": per * len(ch)})
    out.append({"path": "bad", "names": modelled, "n": (40 if tier == "quick" else 600) * len(modelled)})
    out.append({"path": "bad", "names": modelled, "n": (40 if tier == "quick" else 600) * len(modelled)})
    cl = [n for n in modelled if n in CLIENT_METHOD]
    out.append({"path": "client", "names": cl[0::2], "n": (25 if tier == "quick" else 400) * len(cl[0::2])})
    out.append({"path": "client", "names": cl[1::2], "n": (25 if tier == "quick" else 400) * len(cl[1::2])})
    return out


def run_shard(spec: dict[str, Any], seed: int) -> Collector:
    col = Collector()
    modelled, unmodelled = discover()
    if spec["shard"] == 0:
        col.notes.append(f"request classes discovered: {len(modelled)} modelled, unmodelled (no reference entry): {unmodelled}")
        nocl = [n for n in modelled if n not in CLIENT_METHOD]
        col.notes.append(f"modelled classes without a UDSClient service method: {nocl}")

    def body(case: dict[str, Any]) -> None:
        res = check(case)
        sp = refcodec.REQ[case["cls"]]
        if case["path"] == "bad":
            key = ("bad", case["cls"], case["bad"], sp.encode(case["kw"]) if True else b"")
            nt = True
        else:
            key = (case["path"], case["cls"], sp.encode(case["kw"]))
            nt = sp.nontrivial(case["kw"])
        col.case(key, nt, cls=f"{case['path']}/{case['cls']}", sample={**case, "kw": _short(case["kw"])})
        for b, m in res:
            col.violation(b, case, m)

    run_given(case_strategy(spec["names"], spec["path"]), body, spec["n"], seed)
    return col


def replay(witness: Any) -> list[tuple[str, str]]:
    w = unjson(witness)
    return check(w)


def shrink(bucket: str, witness: Any, seed: int) -> Any:
    w = unjson(witness)
    return shrink_bucket(case_strategy([w["cls"]], w["path"]), lambda c: {b for b, _ in check(c)}, bucket, seed, max_examples=1500)
