"""C10 - Service and identifier scans report what the ECU really supports, nothing else."""

from __future__ import annotations

import asyncio
import re
from typing import Any

from hypothesis import strategies as st

from vf import vecu
from vf.core import Collector, run_given, shrink_bucket, unjson
from vf.scan import run_scanner

PROPERTY = "C10"
LEVEL = "exploration"
RULE = (
    "ECU models = RandomUDSServer for generated seeds and randomness parameters (service / sub-function / identifier sets per session). "
    "Service scan: session lists (offered, not offered, repeated), skip maps from range expressions incl. bare outer keys and keys with an "
    "empty inner list, a quarter of the cases against an ECU that falls back to the default session after the probes of chosen service ids "
    "while session checks are on (the scanner has to notice and re-enter the session before the next id), "
    "scan_response_ids, check_session; the real ServicesScanner.run() in-process under virtual time. Ground truth per (session, sid) "
    "comes from a fresh clone of the model forced into that session and asked the probe PDUs in order: result must equal "
    "{(s, sid): s was enterable, sid not skipped, and a probe of length 1/2/3/5 payload bytes is answered by something other than "
    "0x11 / 0x7F / 0x13 / silence before a 0x11 / 0x7F}, must be a subset of what the model implements, the ECU must have seen a probe "
    "for every sid 0x00..0xFF (bit 6 only when asked) while its own session was the claimed one, and nothing named by skip was probed. "
    "Identifier scan: service in {0x22, 0x27, 0x2E, 0x31}, ranges of width <= 400 at offsets incl. 0, 0x7F/0x80, 0xFFFF, payloads, skip "
    "maps; the 'Positive / Abnormal / Timeouts' tallies per session must equal what the ECU actually answered to the exact probe PDUs "
    "(every identifier x sub-function of the range probed in the claimed session, 0x27 clamped to 0x7F, RoutineControl with its three "
    "A third of the cases pass skip as a ready-made mapping with lists in descending order. "
    "sub-functions). Non-trivial: >= 2 sessions scanned, or a non-empty skip map, or both positive and negative identifiers in range. "
    "Distinct by configuration."
)
ASSUMPTIONS = [
    "the clone of the virtual ECU (same seed and parameters, C16) is the ground truth for what the model answers in a session",
    "sessions are entered in list order from wherever the previous scan left the ECU; a session the ECU refuses is expected to be absent",
    "in-memory transport + virtual time; the cyclic tester-present worker is disabled in half of the cases (its 3E 00 equals the 0x3E probe)",
]

NOT_SUPPORTED = (0x11, 0x7F)


def clone_answers(seed: int, params: dict[str, Any], session: int, pdus: list[bytes]) -> list[bytes | None]:
    from gallia.services.uds.core import service

    srv = vecu.make_server(seed, params, [])
    srv.randomize()
    out: list[bytes | None] = []
    loop = asyncio.new_event_loop()
    try:
        for p in pdus:
            srv.state.reset()
            srv.state.session = session
            r = loop.run_until_complete(srv.respond(service.UDSRequest.parse_dynamic(p)))
            out.append(None if r is None else r.pdu)
    finally:
        loop.close()
    return out


def _skip_arg(skip: dict[int, list[int] | None], case: dict[str, Any]) -> Any:
    """The skip option as range-expression tokens (command line) or as a ready-made mapping (a script that builds the configuration
    itself, a stored configuration): in the latter case the lists are given in descending order - a mapping says which ids, not in
    which order."""
    if case.get("skip_as_dict"):
        return {k: (None if v is None else sorted(v, reverse=True)) for k, v in skip.items()}
    return skip_text(skip, bool(case.get("skip_redundant")))


def skip_text(skip: dict[int, list[int] | None], redundant: bool = False) -> list[str]:
    """Range-expression tokens for a skip map. redundant: a whole-session entry is followed by an entry that names single ids of the
    same session - by the documented semantics of the expression language the bare entry wins, the map is the same."""
    toks = []
    for k, v in skip.items():
        toks.append(f"{k:#x}" if v is None else f"{k:#x}:" + ",".join(hex(x) for x in v))
        if v is None and redundant:
            toks.append(f"{k:#x}:0x27,0x10")
    return toks


@st.composite
def services_case(draw) -> dict[str, Any]:
    seed = draw(st.integers(0, 5000))
    params = draw(st.sampled_from([{"p_session": 0.5, "optional_sessions": [2, 3, 4]}, {"p_session": 1.0, "optional_sessions": [2, 3], "p_service": 0.4},
                                   {"p_session": 0.3, "p_service": 0.6, "optional_sessions": [2, 3, 0x40, 0x60]}, {}]))
    fallback = draw(st.integers(0, 3)) == 0  # an ECU that falls out of the scanned session, met by a scanner with session checks
    if fallback:
        # every session directly reachable from the default session; the session read is offered in some sessions only
        params = draw(st.sampled_from([{"p_session": 1.0, "optional_sessions": [2, 3, 4], "p_service": 0.5}, {"p_session": 1.0, "optional_sessions": [2, 3], "p_service": 0.4},
                                       {"p_session": 1.0, "optional_sessions": [2, 3, 4], "p_service": 0.8}]))
        sessions = draw(st.lists(st.sampled_from([1, 2, 3, 4]), min_size=2, max_size=4))
    else:
        sessions = draw(st.one_of(st.none(), st.lists(st.sampled_from([1, 2, 3, 4, 0x40, 0x60, 0x55]), min_size=1, max_size=4)))
    skip: dict[int, list[int] | None] = {}
    if sessions and draw(st.booleans()):
        for s in draw(st.lists(st.sampled_from(sessions + [7]), unique=True, max_size=2)):
            skip[s] = draw(st.one_of(st.none(), st.lists(st.sampled_from([0x10, 0x11, 0x22, 0x27, 0x3E, 0x85, 0x00, 0xFF, 0x31, 0x2E]), unique=True, min_size=0, max_size=4).map(sorted)))
    drop_s = st.lists(st.sampled_from([0x00, 0x11, 0x14, 0x22, 0x27, 0x2E, 0x31, 0x85, 0xA0, 0xFE]), unique=True, min_size=1, max_size=3).map(sorted)
    return {"kind": "services", "seed": seed, "params": params, "sessions": sessions, "skip": {str(k): v for k, v in skip.items()},
            "scan_response_ids": draw(st.booleans()), "check_session": True if fallback else draw(st.booleans()), "tester_present": draw(st.booleans()),
            "skip_redundant": draw(st.booleans()), "skip_as_dict": draw(st.integers(0, 2)) == 0,
            # probes (service id + n zero bytes) the ECU does not answer at all
            "mute": draw(st.one_of(st.just([]), st.lists(st.tuples(st.sampled_from([0x10, 0x11, 0x14, 0x19, 0x22, 0x27, 0x2E, 0x31, 0x85]), st.sampled_from([1, 2, 3])).map(list), max_size=4))),
            # the ECU falls back to the default session after it has finished answering the probes of these service ids
            "drop": draw(drop_s) if fallback else []}


@st.composite
def identifiers_case(draw) -> dict[str, Any]:
    seed = draw(st.integers(0, 5000))
    params = draw(st.sampled_from([{"p_session": 0.5, "optional_sessions": [2, 3], "p_identifier": 0.3, "p_service": 1.0, "p_correct_payload_format": 0.7, "p_sub_function": 0.3},
                                   {"p_session": 1.0, "optional_sessions": [2], "p_identifier": 0.1, "p_service": 0.7, "p_correct_payload_format": 1.0, "p_sub_function": 0.1}]))
    svc = draw(st.sampled_from([0x22, 0x27, 0x2E, 0x31]))
    start = draw(st.sampled_from([0, 0x50, 0x7F, 0x80, 0xF100, 0xFF00, 0xFFF0, 0x1234]))
    width = draw(st.sampled_from([0, 1, 15, 16, 60, 200]))
    if svc == 0x27:
        start = draw(st.sampled_from([0, 1, 0x30, 0x70, 0x7F]))
        width = draw(st.sampled_from([0, 5, 0x20, 0x60, 0x90, 0xC8, 0x100]))
    end = min(0xFFFF, start + width)
    sessions = draw(st.one_of(st.none(), st.lists(st.sampled_from([1, 2, 3]), min_size=1, max_size=3, unique=True)))
    skip: dict[int, list[int] | None] = {}
    if sessions and draw(st.booleans()):
        s = draw(st.sampled_from(sessions))
        skip[s] = draw(st.one_of(st.none(), st.lists(st.integers(start, end), unique=True, min_size=0, max_size=5).map(sorted)))
    payload = draw(st.sampled_from([None, None, "00", "0102", "ff"])) if svc != 0x22 else None
    check_session = draw(st.sampled_from([None, None, 1, 1, 7]))
    if draw(st.integers(0, 5)) == 0:
        # routines on an ECU that leaves the session after a start-routine probe, scanned with a session check before every probe
        svc, check_session, payload = 0x31, 1, None
        params = {"p_session": 1.0, "optional_sessions": [2, 3], "p_identifier": 0.3, "p_service": 1.0, "p_correct_payload_format": 1.0, "p_sub_function": 0.3}
        start = draw(st.sampled_from([0, 0x50, 0xF100, 0x1234]))
        end = start + draw(st.sampled_from([3, 15, 40]))
        sessions = draw(st.lists(st.sampled_from([2, 3]), min_size=1, max_size=2, unique=True))
        skip = {}
    # identifiers after whose (first) probe the ECU falls back to the default session; only with a session check before every probe
    drop = draw(st.lists(st.integers(start, end), unique=True, min_size=1, max_size=3).map(sorted)) if (check_session == 1 and sessions and draw(st.booleans())) else []
    return {"kind": "identifiers", "seed": seed, "params": params, "service": svc, "start": start, "end": end, "sessions": sessions,
            "skip": {str(k): v for k, v in skip.items()}, "payload": payload, "check_session": check_session, "drop": drop, "skip_redundant": draw(st.booleans()), "skip_as_dict": draw(st.integers(0, 2)) == 0}


def enterable(model: dict[int, dict[int, list[int] | None]], sessions: list[int]) -> list[tuple[int, bool]]:
    cur = 1
    out = []
    for s in sessions:
        ok = 0x10 in model.get(cur, {}) and s in (model[cur][0x10] or []) and s in model
        out.append((s, ok))
        if ok:
            cur = s
    return out


def drop_effective(case: dict[str, Any], server: Any) -> list[int]:
    """Service ids after whose probes the ECU falls back to the default session (a reset / S3 expiry). Only used where the scanner
    is in a position to notice and repair it before the next service id: session checks enabled, the default session answers the
    session read (22 F1 86), and every requested session can be entered directly from the default session."""
    drop = case.get("drop") or []
    if not drop or not case["check_session"] or not case["sessions"]:
        return []
    clone = vecu.make_server(case["seed"], case["params"], [])
    clone.randomize()
    model = vecu.model_dict(clone)
    rep = clone_answers(case["seed"], case["params"], 1, [b"\x22\xf1\x86"])[0]
    if rep is None or rep[0] != 0x62:
        return []
    offered = (model.get(1, {}).get(0x10) or [])
    if any(s != 1 and s in model and s not in offered for s in case["sessions"]):
        return []
    return list(drop)


def check(case: dict[str, Any]) -> list[tuple[str, str]]:
    return check_services(case) if case["kind"] == "services" else check_identifiers(case)


def check_services(case: dict[str, Any]) -> list[tuple[str, str]]:
    from gallia.commands.scan.uds.services import ServicesScanner, ServicesScannerConfig

    server = vecu.make_server(case["seed"], case["params"], [])
    skip = {int(k): v for k, v in case["skip"].items()}
    cfg = ServicesScannerConfig(target="tcp-lines://127.0.0.1:1", sessions=case["sessions"], skip=(_skip_arg(skip, case)) if skip else {},
                                scan_response_ids=case["scan_response_ids"], check_session=case["check_session"], dumpcap=False, timeout=0.5,
                                properties=False, tester_present=case["tester_present"])
    drop = set(drop_effective(case, server))

    def after_reply(srv: Any, data: bytes, reply: bytes | None) -> None:
        if data[0] in drop and len(data) in (2, 3, 4, 6) and data[1:] == bytes(len(data) - 1):
            terminal = len(data) == 6 or (reply is not None and not (reply[0] == 0x7F and len(reply) == 3 and reply[2] == 0x13))
            if terminal:
                srv.state.session = 1

    mute = {(a, b) for a, b in case.get("mute") or []}

    def is_muted(data: bytes) -> bool:
        return (data[0], len(data) - 1) in mute and data[1:] == bytes(len(data) - 1)

    r = run_scanner(ServicesScanner, cfg, server, budget=60000, after_reply=after_reply if drop else None, mute=is_muted if mute else None)
    ctx = (f"services seed={case['seed']} params={case['params']} sessions={case['sessions']} skip={skip} response_ids={case['scan_response_ids']} "
           f"check_session={case['check_session']} ecu-falls-back-after={sorted(hex(x) for x in drop)} silent-on={sorted(mute)}")
    if r["status"] != "ok":
        return [(f"C10/services/run-{r['status']}", f"{ctx}: {r['val']!r}")]
    rc = r["box"].get("rc")
    if isinstance(rc, str) and rc.startswith("exc:"):
        return [(f"C10/services/scanner-raises/{rc[4:30]}", f"{ctx}: {rc}")]
    model = vecu.model_dict(server)
    scanner = r["box"]["scanner"]
    got = set(scanner.result)
    out: list[tuple[str, str]] = []
    if case["sessions"] is None:
        plan = [(0, 1, True)]  # key 0 = "current session", which is the default session
    else:
        wanted = [s for s in case["sessions"] if s not in skip or skip[s] is not None]
        plan = [(s, s, ok) for s, ok in enterable(model, wanted)]
    expected: set[tuple[int, int]] = set()
    sids = [x for x in range(256) if case["scan_response_ids"] or not (x & 0x40)]
    for key, sess, ok in plan:
        if not ok:
            continue
        sk = skip.get(key if case["sessions"] is not None else None)  # type: ignore[arg-type]
        for sid in sids:
            if case["sessions"] is not None and key in skip and (sk is None or sid in sk):
                continue
            probes = [bytes([sid]) + bytes(n) for n in (1, 2, 3, 5)]
            for n_, rep in zip((1, 2, 3, 5), clone_answers(case["seed"], case["params"], sess, probes)):
                if rep is None or (sid, n_) in mute:
                    continue
                if rep[0] == 0x7F and len(rep) == 3 and rep[2] in NOT_SUPPORTED:
                    break
                if rep[0] == 0x7F and len(rep) == 3 and rep[2] == 0x13:
                    continue
                expected.add((key, sid))
                break
    if got != expected:
        missing, extra = sorted(expected - got), sorted(got - expected)
        kind = "missing" if missing and not extra else "extra" if extra and not missing else "both"
        out.append((f"C10/services/wrong-findings/{kind}", f"{ctx}: missing {[(hex(a), hex(b)) for a, b in missing][:8]} extra {[(hex(a), hex(b)) for a, b in extra][:8]}"))
    for key, sid in got:
        sess = 1 if case["sessions"] is None else key
        if sid not in model.get(sess, {}):
            out.append(("C10/services/reported-but-not-implemented", f"{ctx}: ({key:#x}, {sid:#x}) reported, model offers {sorted(hex(x) for x in model.get(sess, {}))}"))
            break
    # coverage: every sid probed in the claimed session; nothing skipped was probed
    probe_re = lambda p: len(p) in (2, 3, 4, 6) and p[1:] == bytes(len(p) - 1)  # noqa: E731
    for key, sess, ok in plan:
        if not ok:
            continue
        seen = {p[0] for s_, p, _ in r["wire"] if s_ == sess and probe_re(p)}
        for sid in sids:
            skipped = case["sessions"] is not None and key in skip and (skip[key] is None or sid in skip[key])
            if sid == 0x3E:
                continue  # 3E 00 is also sent by wait_for_ecu() during setup and by the tester-present worker
            if skipped and sid in seen and not (sid == 0x10):
                # a skipped sid may still appear as part of session handling (10 xx is never all-zero payload, so no clash)
                out.append(("C10/services/skipped-service-probed", f"{ctx}: sid {sid:#x} probed in session {sess:#x}"))
                break
            if not skipped and sid not in seen:
                out.append(("C10/services/service-not-probed-in-claimed-session", f"{ctx}: no probe for sid {sid:#x} reached the ECU while it was in session {sess:#x}"))
                break
    return out


def check_identifiers(case: dict[str, Any]) -> list[tuple[str, str]]:
    from gallia.commands.scan.uds.identifiers import ScanIdentifiers, ScanIdentifiersConfig

    server = vecu.make_server(case["seed"], case["params"], [])
    skip = {int(k): v for k, v in case["skip"].items()}
    svc = case["service"]
    cfg = ScanIdentifiersConfig(target="tcp-lines://127.0.0.1:1", sessions=case["sessions"], skip=(_skip_arg(skip, case)) if skip else {}, start=case["start"], end=case["end"],
                                service=svc, payload=case["payload"], check_session=case["check_session"], dumpcap=False, timeout=0.5, properties=False,
                                tester_present=False)
    drop = set(case.get("drop") or [])
    if drop:
        # the scanner can only repair the session if the default session tells which session is active and offers the way back
        clone = vecu.make_server(case["seed"], case["params"], [])
        clone.randomize()
        m1 = vecu.model_dict(clone).get(1, {})
        rep = clone_answers(case["seed"], case["params"], 1, [b"\x22\xf1\x86"])[0]
        if case["check_session"] != 1 or rep is None or rep[0] != 0x62 or any(s_ != 1 and s_ not in (m1.get(0x10) or []) for s_ in case["sessions"] or []):
            drop = set()

    def after_reply(srv: Any, data: bytes, reply: bytes | None) -> None:
        if data[0] != svc:
            return
        ident = data[1] if svc == 0x27 else int.from_bytes(data[2:4], "big") if svc == 0x31 else int.from_bytes(data[1:3], "big")
        first_probe = svc != 0x31 or data[1] == 1
        if ident in drop and first_probe and len(data) >= (4 if svc == 0x31 else 2 if svc == 0x27 else 3):
            srv.state.session = 1

    r = run_scanner(ScanIdentifiers, cfg, server, budget=60000, after_reply=after_reply if drop else None)
    ctx = (f"identifiers seed={case['seed']} service={svc:#x} range={case['start']:#x}-{case['end']:#x} sessions={case['sessions']} skip={skip} payload={case['payload']} "
           f"check_session={case['check_session']} ecu-falls-back-after={sorted(hex(x) for x in drop)}")
    if r["status"] != "ok":
        return [(f"C10/identifiers/run-{r['status']}", f"{ctx}: {r['val']!r}")]
    rc = r["box"].get("rc")
    if isinstance(rc, str) and rc.startswith("exc:"):
        return [(f"C10/identifiers/scanner-raises/{rc[4:30]}", f"{ctx}: {rc}")]
    model = vecu.model_dict(server)
    out: list[tuple[str, str]] = []
    end = min(case["end"], 0x7F) if svc == 0x27 else case["end"]
    subfns = [1, 2, 3] if svc == 0x31 else [0]
    payload = bytes.fromhex(case["payload"]) if case["payload"] else b""

    def pdu(i: int, sf: int) -> bytes:
        if svc == 0x27:
            return bytes([svc, i]) + payload
        if svc == 0x31:
            return bytes([svc, sf, i >> 8, i & 0xFF]) + payload
        return bytes([svc, i >> 8, i & 0xFF]) + payload

    if case["sessions"] is None:
        plan = [(None, 1, True)]
    else:
        wanted = [s for s in case["sessions"] if s not in skip or skip[s] is not None]
        # the scanner returns to the default session after every scanned session (leave_session): each entry starts from 0x01
        plan = [(s, s, 0x10 in model.get(1, {}) and s in (model[1][0x10] or [])) for s in wanted]
    tallies = [(int(m.group(1))) for line in r["results"] for m in [re.match(r"Positive replies: (\d+)", line)] if m]
    abn = [(int(m.group(1))) for line in r["results"] for m in [re.match(r"Abnormal replies: (\d+)", line)] if m]
    tmo = [(int(m.group(1))) for line in r["results"] for m in [re.match(r"Timeouts: (\d+)", line)] if m]
    scanned = [(k, s) for k, s, ok in plan if ok]
    if len(tallies) != len(scanned):
        out.append(("C10/identifiers/number-of-scanned-sessions", f"{ctx}: {len(tallies)} tallies for {len(scanned)} enterable sessions {[hex(s) for _, s in scanned]}; rc={rc}"))
        return out
    for idx, (key, sess) in enumerate(scanned):
        sk = skip.get(key) if key is not None else None
        probes = [(i, sf) for i in range(case["start"], end + 1) for sf in subfns if not (key in skip and (sk is None or i in sk))]
        first: dict[bytes, bytes | None] = {}
        for s_, p, rep in r["wire"]:
            if s_ == sess and p not in first:
                first[p] = rep
        pos = neg_abn = 0
        for i, sf in probes:
            p = pdu(i, sf)
            if p not in first:
                out.append(("C10/identifiers/identifier-not-probed-in-claimed-session", f"{ctx}: {p.hex()} never reached the ECU in session {sess:#x}"))
                return out
            rep = first[p]
            if rep is None:
                continue
            if rep[0] == svc + 0x40:
                pos += 1
            elif rep[0] == 0x7F and rep[2] not in (0x11, 0x7F, 0x31, 0x12):
                neg_abn += 1
        if key in skip and sk is not None:
            for i in (x for x in sk if case["start"] <= x <= end):
                for sf in subfns:
                    if any(s_ == sess and p == pdu(i, sf) for s_, p, _ in r["wire"]):
                        out.append(("C10/identifiers/skipped-identifier-probed", f"{ctx}: {pdu(i, sf).hex()} probed in session {sess:#x}"))
                        return out
        if tallies[idx] != pos:
            out.append((f"C10/identifiers/positive-count/{'low' if tallies[idx] < pos else 'high'}", f"{ctx}: session {sess:#x}: scanner says {tallies[idx]} positive replies, the ECU answered {pos} of {len(probes)} probes positively"))
        if abn[idx] != neg_abn:
            out.append(("C10/identifiers/abnormal-count", f"{ctx}: session {sess:#x}: scanner says {abn[idx]} abnormal, ECU gave {neg_abn}"))
        if tmo[idx] != 0:
            out.append(("C10/identifiers/timeouts-reported", f"{ctx}: session {sess:#x}: scanner reports {tmo[idx]} timeouts, the ECU answered everything"))
    return out


def nontrivial(case: dict[str, Any]) -> bool:
    return bool(case["sessions"] and len(case["sessions"]) >= 2) or bool(case["skip"]) or bool(case.get("drop")) or (case["kind"] == "identifiers" and case["end"] > case["start"])


def shards(tier: str) -> list[dict[str, Any]]:
    n = 25 if tier == "quick" else 2000
    return [{"what": "services", "n": n} for _ in range(8)] + [{"what": "identifiers", "n": n * 2} for _ in range(8)]


def run_shard(spec: dict[str, Any], seed: int) -> Collector:
    col = Collector()

    res_fb: dict[str, bool] = {}

    def body(case: dict[str, Any]) -> None:
        res = check(case)
        res_fb["on"] = case["kind"] == "services" and bool(drop_effective(case, None))
        col.case(str(case), nontrivial(case), cls=case["kind"] + ("/sessions" if case["sessions"] else "/current") + ("/skip" if case["skip"] else "") + ("/fallback" if res_fb.get("on") else "")
                 + (f"/svc{case['service']:02x}" if case["kind"] == "identifiers" else ""), sample=case)
        for b, m in res:
            col.violation(b, case, m)

    run_given(services_case() if spec["what"] == "services" else identifiers_case(), body, spec["n"], seed)
    return col


def replay(witness: Any) -> list[tuple[str, str]]:
    return check(unjson(witness))


def shrink(bucket: str, witness: Any, seed: int) -> Any:
    w = unjson(witness)
    return shrink_bucket(services_case() if w["kind"] == "services" else identifiers_case(), lambda c: {b for b, _ in check(c)}, bucket, seed, max_examples=120)
