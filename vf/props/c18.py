"""C18 - Settings resolve CLI > env > file > default; a stored config re-creates the run."""

from __future__ import annotations

import contextlib
import io
import itertools
import json
import os
import re
import tempfile
import types
import typing
from pathlib import Path
from typing import Any
from unittest import mock

from hypothesis import strategies as st

from vf.core import Collector, run_given, unjson

PROPERTY = "C18"
LEVEL = "exploration"
RULE = (
    "Every command of load_commands() x every non-hidden option whose type is modelled (bool, int, float, str, Path and their Optional "
    "forms, plus AutoInt / HexBytes / Ranges / enum options where their metadata is intact) x all 8 subsets of {CLI, env, file} providing "
    "a value (the built-in default stands alone in the empty subset), with generated pairwise distinct valid values so that the winning "
    "source is identifiable, plus one invalid value injected through each source. The parser is built with gallia's own "
    "_create_parser_from_command + ArgumentParser, a Config dict stands for gallia.toml, os.environ is patched. Ground truth for which "
    "options are file/env configurable, under which key, positional / short names comes from the declaration metadata recorded by the "
    "GALLIA_VERIF hook. Oracle: effective value = value of the highest-priority source present; an invalid value -> exit status 2 and a "
    "message naming the source; CONFIG_TYPE(**json.loads(cfg.model_dump_json())) dumps to identical JSON (what META.json / the database "
    "store and rerun feeds back); the declared metadata of every Field() survives model construction; template() lists every declared "
    "Cells whose option name is also a command name (and a rotating sample of the others) additionally go through the parser of the whole command tree; free-text values contain quotes and blanks. "
    "file-configurable option under its section. Non-trivial: >= 2 sources present. Distinct by (command, option, source set, values)."
)
ASSUMPTIONS = [
    "options whose declared metadata is lost under the installed pydantic (recorded known finding) are excluded from the precedence cells and counted",
    "required options are satisfied by an automatic solver (target URI, typed dummy values); commands it cannot satisfy are reported as unmodelled in the evidence notes",
    "plain int/float options accept decimal notation only; 0x/0o/0b notations are generated for AutoInt options",
]

TARGET = "tcp-lines://127.0.0.1:20162"
INVALID_KINDS = ("int", "float", "autoint", "hexint", "hexbytes", "ranges")  # kinds for which the text "zz" is not a value


def flat_commands() -> list[tuple[str, Any]]:
    from gallia.plugins.plugin import CommandTree, load_commands

    def walk(tree: Any, path: tuple[str, ...]) -> Any:
        for k, v in tree.items():
            if isinstance(v, CommandTree):
                yield from walk(v.subtree, path + (k,))
            else:
                yield " ".join(path + (k,)), v

    return sorted(walk(load_commands(), ()), key=lambda x: x[0])


def declared_for(config_type: Any) -> dict[str, dict[str, Any]]:
    from gallia.command.config import _VERIF_DECLARED_FIELDS

    by_cls: dict[Any, dict[str, dict[str, Any]]] = {}
    for cls, attr, section, positional, short, const, hidden in _VERIF_DECLARED_FIELDS:
        by_cls.setdefault(cls, {})[attr] = {"cls": cls.__qualname__, "section": section, "positional": positional, "short": short, "hidden": hidden, "const": const}
    out: dict[str, dict[str, Any]] = {}
    for c in config_type.__mro__:
        for attr, d in by_cls.get(c, {}).items():
            out.setdefault(attr, d)
    return out


def intact(f: Any, d: dict[str, Any]) -> bool:
    from gallia.command.config import ConfigArgFieldInfo

    return isinstance(f, ConfigArgFieldInfo) and f.positional == d["positional"] and f.short == d["short"] and f.config_section == d["section"]


def kind_of_field(f: Any) -> str | None:
    """kind of a field; fields with validators are probed for the notation they accept (behavioural classification)"""
    k = kind_of(f.annotation)
    import enum

    import pydantic

    if k is None:
        ann = f.annotation
        opt = ""
        if typing.get_origin(ann) in (typing.Union, types.UnionType):
            args = [a for a in typing.get_args(ann) if a is not type(None)]
            if len(args) != 1:
                return None
            ann, opt = args[0], "?"
        base = typing.get_args(ann)[0] if typing.get_origin(ann) is typing.Annotated else ann
        if getattr(base, "__name__", "") == "TargetURI":
            return "target" + opt
        try:
            ta = pydantic.TypeAdapter(typing.Annotated[(ann, *f.metadata)] if f.metadata else ann)  # type: ignore[arg-type]
        except Exception:  # noqa: BLE001
            return None

        def accepts(text: Any, value: Any) -> bool:
            try:
                return bool(ta.validate_python(text) == value)
            except Exception:  # noqa: BLE001
                return False

        if base is int and accepts("10", 16):
            return "hexint" + opt
        if base is bytes and accepts("3e00", b"\x3e\x00"):
            return "hexbytes" + opt
        if typing.get_origin(base) is list and typing.get_args(base) == (int,) and accepts("1-3", [1, 2, 3]):
            return "ranges" + opt
        if typing.get_origin(base) is dict and accepts("1:1 1:2", {1: [1, 2]}):
            return "ranges2d" + opt
        if isinstance(base, type) and issubclass(base, enum.Enum) and len(list(base)) >= 3:
            m = list(base)[0]
            if accepts(m.name, m) and isinstance(m.value, int) and accepts(hex(m.value), m):
                return "enum" + opt
        if getattr(base, "__name__", "") == "TargetURI":
            return "target" + opt
        return None
    if not k.startswith("int") or not f.metadata:
        return k
    try:
        ta = pydantic.TypeAdapter(typing.Annotated[(f.annotation, *f.metadata)])  # type: ignore[arg-type]
        ten = ta.validate_python("10")
    except Exception:  # noqa: BLE001
        return None
    if ten == 16:
        return "hexint" + ("?" if k.endswith("?") else "")
    try:
        if ta.validate_python("0x10") == 16:
            return "autoint" + ("?" if k.endswith("?") else "")
    except Exception:  # noqa: BLE001
        pass
    return k


def kind_of(ann: Any) -> str | None:
    """bool / int / float / str / path (+ '?' when Optional); None when not modelled"""
    origin = typing.get_origin(ann)
    opt = ""
    if origin in (typing.Union, types.UnionType):
        args = [a for a in typing.get_args(ann) if a is not type(None)]
        if len(args) != 1:
            return None
        ann = args[0]
        opt = "?"
        origin = typing.get_origin(ann)
    if origin is typing.Annotated:
        base = typing.get_args(ann)[0]
        meta = repr(typing.get_args(ann)[1:])
        if base is int and "err_int(x, 0)" not in meta and "BeforeValidator" in meta:
            return "autoint" + opt
        return None
    if ann is bool:
        return "bool" + opt
    if ann is int:
        return "int" + opt
    if ann is float:
        return "float" + opt
    if ann is str:
        return "str" + opt
    if ann is Path:
        return "path" + opt
    return None


def values_for(kind: str, i: int, d: Path) -> tuple[Any, str, Any, Any]:
    """(expected python value, CLI text, env text, file value) for the i-th distinct value"""
    k = kind.rstrip("?")
    if k == "int":
        v = [11, 22, 33][i]
        return v, str(v), str(v), v
    if k == "autoint":
        v = [11, 22, 33][i]
        return v, [hex(v), oct(v), bin(v)][i], [str(v), hex(v), oct(v)][i], v
    if k == "float":
        v = [1.25, 2.5, 3.75][i]
        return v, str(v), str(v), v
    if k == "str":
        # free text is taken as it is given - quotes and blanks included - whichever source it comes from
        v = ["aa", '"b b"', "'cc' x"][i]
        return v, v, v, v
    if k == "path":
        v = d / ["p1", "p2", "p3"][i]
        return v, str(v), str(v), str(v)
    if k == "hexint":
        # the file (and a stored config) holds the number, the command line and the environment hex digits
        v = [0x7F, 200, 0x1234][i]
        return v, [format(v, "x"), hex(v), format(v, "X")][i], [hex(v), format(v, "x"), format(v, "x")][i], v
    if k == "hexbytes":
        v = [b"\x22\xf1\x90", b"\x3e\x00", b"\x10\x03\xaa\xbb"][i]
        return v, v.hex(), v.hex().upper() if i == 1 else v.hex(), v.hex()
    if k == "ranges2d":
        # several entries for one outer key (their inner values add up), a bare outer key, ranges on both levels
        v = [{1: [1, 2]}, {2: None, 3: [0x27]}, {4: [1, 2, 3], 5: [1, 2, 3]}][i]
        cli = [["1:1", "1:2"], ["2", "2-3:0x27"], ["4-5:1-2", "4:3", "5:3"]][i]
        return v, cli, " ".join(cli), [cli, " ".join(cli), cli][i]
    if k == "ranges":
        v = [[1, 2, 3], [16, 32], [5, 7, 8, 9]][i]
        return v, ["1-3", "0x10,0x20", "5,7-9"][i], ["1-3", "0x10,0x20", "5,7-9"][i], [[1, 2, 3], "0x10,0x20", ["5", "7-9"]][i]
    raise AssertionError(kind)


def nested(section: str, name: str, value: Any) -> dict[str, Any]:
    cfg: dict[str, Any] = {}
    cur = cfg
    if section:
        for part in section.split("."):
            cur = cur.setdefault(part, {})
    cur[name] = value
    return cfg


_TOKENS: set[str] = set()


def command_tokens() -> set[str]:
    """every word that names a command or a command group somewhere in the tree"""
    if not _TOKENS:
        for n, _ in flat_commands():
            _TOKENS.update(n.split())
    return _TOKENS


def parse(command: Any, args: list[str], env: dict[str, str], file_cfg: dict[str, Any] | str, tree_path: list[str] | None = None) -> tuple[str, Any, str]:
    """file_cfg: the content of gallia.toml as nested dict, or as TOML text. With tree_path the arguments go through the parser of
    the whole command tree, as on the real command line (`gallia <group> .. <command> <args>`)."""
    from gallia.cli.gallia import _create_parser_from_command
    from gallia.config import Config
    from gallia.pydantic_argparse import ArgumentParser

    clean = {k: v for k, v in os.environ.items() if not k.startswith("GALLIA_") or k == "GALLIA_VERIF"}
    clean.update(env)
    err = io.StringIO()
    with mock.patch.dict(os.environ, clean, clear=True), contextlib.redirect_stderr(err):
        try:
            if file_cfg:
                # through a real gallia.toml, rewritten in place for every case, found and read by gallia's own loader
                from gallia.config import load_config_file

                TOML_PATH = toml_path()
                TOML_PATH.parent.mkdir(parents=True, exist_ok=True)
                TOML_PATH.write_text(file_cfg if isinstance(file_cfg, str) else toml_dumps(file_cfg))
                os.environ["GALLIA_CONFIG"] = str(TOML_PATH)  # (inside the patched environment) the documented way to name the file
                config, used = load_config_file()
                if used != TOML_PATH:
                    return "exc:harness", None, f"gallia.toml not used: {used}"
            else:
                config = Config()
            if tree_path is not None:
                from gallia.cli.gallia import create_parser, get_command
                from gallia.plugins.plugin import load_commands

                if not file_cfg:
                    os.environ["GALLIA_CONFIG"] = os.devnull  # no stray gallia.toml of the working directory
                _, cfg_t = create_parser(load_commands()).parse_typed_args(tree_path + args)
                return "ok", get_command(cfg_t).config, ""
            model, extra, _ = _create_parser_from_command(command, config, {})
            p = ArgumentParser(model=model, extra_defaults=extra, prog="gallia")
            _, cfg = p.parse_typed_args(args)
            return "ok", cfg, ""
        except SystemExit as e:
            return f"exit{e.code}", None, err.getvalue()
        except Exception as e:  # noqa: BLE001
            return f"exc:{type(e).__name__}", None, f"{type(e).__name__}: {e}"


_BASE: dict[str, list[str] | None] = {}
_POS: dict[str, dict[str, int]] = {}


def toml_path() -> Path:
    """one gallia.toml per process (shards run in forked workers: the pid is taken at call time)"""
    return Path(tempfile.gettempdir()) / f"vf-c18-{os.getpid()}" / "gallia.toml"



def toml_dumps(cfg: dict[str, Any]) -> str:
    """Minimal TOML writer for nested tables of scalars and flat lists (all that a gallia.toml holds)."""
    lines: list[str] = []

    def val(v: Any) -> str:
        if isinstance(v, bool):
            return "true" if v else "false"
        if isinstance(v, (int, float)):
            return repr(v)
        if isinstance(v, (list, tuple)):
            return "[" + ", ".join(val(x) for x in v) + "]"
        return json.dumps(str(v))

    def table(prefix: list[str], d: dict[str, Any]) -> None:
        scalars = {k: v for k, v in d.items() if not isinstance(v, dict)}
        if prefix and scalars:
            lines.append("[" + ".".join(prefix) + "]")
        for k, v in scalars.items():
            lines.append(f"{k} = {val(v)}")
        for k, v in d.items():
            if isinstance(v, dict):
                table(prefix + [k], v)

    table([], cfg)
    return "\n".join(lines) + "\n"


def base_args(name: str, command: Any) -> list[str] | None:
    """arguments that satisfy the command's required options (solved once per command)"""
    if name in _BASE:
        return _BASE[name]
    args: list[str] = []
    fields = command.CONFIG_TYPE.model_fields
    for _ in range(8):
        st_, _cfg, err = parse(command, args, {}, {})
        if st_ == "ok":
            _BASE[name] = args
            return args
        m = re.search(r"the following arguments are required: (.*)", err)
        progressed = False
        if m:
            # choice sets are printed as "{a, b, c}": keep them together
            toks = [t.strip() for t in re.split(r",\s*(?![^{]*\})", m.group(1))]
            for tok in toks:
                if tok.startswith("{"):
                    args = args + [tok.strip("{}").split(",")[0].strip()]
                    progressed = True
                    continue
                opt = tok.split("/")[-1].strip()
                attr = opt.lstrip("-").replace("-", "_")
                if not opt.startswith("-"):
                    # positionals are reported by their (upper-case) metavar
                    attr = next((a for a in fields if a.lower() == opt.lower()), attr.lower())
                val = _dummy(attr, fields.get(attr))
                if val is None or (opt.startswith("-") and opt in args):
                    continue
                if not opt.startswith("-"):
                    _POS.setdefault(name, {})[attr] = len(args)  # where the positional's token sits in the base arguments
                args = args + ([opt, val] if opt.startswith("-") else [val])
                progressed = True
        elif "Exactly one of id or file is required" in err:
            args = args + ["--file", "/tmp/vf-nonexistent-META.json"]
            progressed = True
        elif "No instructions were given" in err:
            args = args + ["--start"]
            progressed = True
        elif "Exactly one of data or data-file is required" in err:
            args = args + ["--data", "0102"]
            progressed = True
        elif ("ransport sche" in err) and TARGET in args:
            # commands restricted to particular transports
            alt = "can-raw://vcan0" if "can-raw" in err else "tcp://127.0.0.1:20162"
            args = [alt if a == TARGET else a for a in args]
            progressed = True
        elif "argument --service" in err and "--service" in args:
            i = args.index("--service")
            if args[i + 1] != "0x23":
                args[i + 1] = "0x23"
                progressed = True
        else:
            m2 = re.findall(r"(?:argument|default of) ([\w-]+)", err)
            _ = m2
        if not progressed:
            break
    _BASE[name] = None
    return None


def _dummy(attr: str, f: Any) -> str | None:
    if attr == "target":
        return TARGET
    if attr == "properties":
        return "{}"
    if attr == "sources":
        return "1:1:1" if f is not None and "int, int, int" in repr(f.annotation) else "1:1"
    if f is None:
        return "1"
    ann = repr(f.annotation)
    if "TargetURI" in ann:
        return TARGET
    if "bytes" in ann:
        return "0102"
    if "Path" in ann:
        return "/tmp/vf-nonexistent"
    if "int" in ann or "float" in ann:
        return "1"
    if "UDSIsoServices" in ann:
        return "0x22"
    return "x"


def option_cells(name: str, command: Any, d: Path) -> list[dict[str, Any]]:
    """all (option, source subset) cells of a command"""
    ct = command.CONFIG_TYPE
    decl = declared_for(ct)
    cells = []
    for attr, f in ct.model_fields.items():
        dd = decl.get(attr)
        if dd is None or dd["hidden"]:
            continue
        k = kind_of_field(f)
        cells.append({"command": name, "option": attr, "kind": k, "intact": intact(f, dd), "decl": dd})
    return cells


def check_cell(name: str, command: Any, cell: dict[str, Any], subset: tuple[bool, bool, bool], d: Path, base: list[str], rot: int = 0) -> tuple[list[tuple[str, str]], str]:
    """one precedence cell; returns (violations, class label)"""
    attr, kind, dd = cell["option"], cell["kind"], cell["decl"]
    cli, env, file_ = subset
    out: list[tuple[str, str]] = []
    f = command.CONFIG_TYPE.model_fields[attr]
    has_file_key = dd["section"] is not None
    if file_ and not has_file_key:
        return [], "no-file-key"
    long_opt = "--" + attr.replace("_", "-")
    args = _without(base, long_opt)
    envd: dict[str, str] = {}
    filed: dict[str, Any] = {}
    order = [(0 + rot) % 3, (1 + rot) % 3, (2 + rot) % 3]
    if kind.rstrip("?") == "bool":
        default = f.get_default() if not f.is_required() else None
        vals = {"cli": not bool(default), "env": bool(default) if cli else (not bool(default)), "file": bool(default) if (cli or env) else (not bool(default))}
        # make neighbours differ so that the winner is identifiable
        vals["env"] = not vals["cli"] if cli else vals["env"]
        vals["file"] = (not vals["env"]) if env else ((not vals["cli"]) if cli else vals["file"])
        if cli:
            args += [long_opt if vals["cli"] else "--no-" + attr.replace("_", "-")]
        if env:
            envd[f"GALLIA_{attr.upper()}"] = ["true", "false"][0 if vals["env"] else 1] if rot % 2 == 0 else ["1", "0"][0 if vals["env"] else 1]
        if file_:
            filed = nested(dd["section"], attr, vals["file"])
        expected = vals["cli"] if cli else vals["env"] if env else vals["file"] if file_ else default
    else:
        if kind.rstrip("?") == "enum":
            ann = f.annotation
            if typing.get_origin(ann) in (typing.Union, types.UnionType):
                ann = [a for a in typing.get_args(ann) if a is not type(None)][0]
            members = list(typing.get_args(ann)[0] if typing.get_origin(ann) is typing.Annotated else ann)
            pick = [members[0], members[len(members) // 2], members[-1]]
            trip = [(pick[i], [pick[i].name, hex(pick[i].value), str(pick[i].value)][i], [hex(pick[i].value), pick[i].name, pick[i].name][i],
                     [pick[i].value, pick[i].name, hex(pick[i].value)][i]) for i in order]
        elif kind.rstrip("?") == "target":
            cur = base[base.index(long_opt) + 1] if long_opt in base else TARGET
            m_ = re.match(r"^(.*:)(\d+)$", cur)
            alts = [f"{m_.group(1)}{20001 + i}" if m_ else f"{cur.rstrip('0123456789')}{i + 1}" for i in range(3)]
            trip = [(alts[i], alts[i], alts[i], alts[i]) for i in order]
        else:
            trip = [values_for(kind, i, d) for i in order]
        if dd["positional"]:
            # the positional's token in the base arguments is replaced by the CLI value, or removed when the CLI gives none
            idx = _POS.get(name, {}).get(attr)
            if idx is None or idx >= len(base) or _BASE.get(name) is not base:
                return [], "positional-unlocated"
            args = list(base)
            if cli:
                args[idx] = trip[0][1]
            else:
                del args[idx]
        elif cli:
            args += [long_opt, *trip[0][1]] if isinstance(trip[0][1], list) else [long_opt, trip[0][1]]
        if env:
            envd[f"GALLIA_{attr.upper()}"] = trip[1][2]
        if file_:
            filed = nested(dd["section"], attr, trip[2][3])
        expected = trip[0][0] if cli else trip[1][0] if env else trip[2][0] if file_ else (f.get_default() if not f.is_required() else None)
        if not (cli or env or file_) and f.is_required():
            return [], "required-no-source"
    status, cfg, err = parse(command, args, envd, filed)
    src = "+".join(n for n, on in zip(("cli", "env", "file"), subset) if on) or "default"
    ctx = f"{name} {attr} ({kind}) sources={src} args={[a for a in args if a not in base][:4]} env={envd} file={filed}"
    if status != "ok":
        if kind.rstrip("?") == "str" and "error" in err:
            return [], "validator-rejects-generated-string"  # e.g. --oem only accepts registered names
        tail = err[max(err.rfind("error: "), err.rfind("errors: ")):]  # without the usage text in front of it
        named = (f"argument {long_opt}" in tail) or (f", {long_opt}:" in tail) or (f"GALLIA_{attr.upper()}" in tail) or (f":{attr})" in tail)
        if status == "exit2" and not named:
            return [], "cross-field-validator"  # e.g. power-cycle needs power-supply: the value itself was accepted
        return [(f"C18/precedence/rejected/{src}/{kind}", f"{ctx}: {status} {err[-300:]}")], src
    got = getattr(cfg, attr)
    if kind.startswith("path") and got is not None:
        got = Path(got)
    if kind.startswith("target") and got is not None:
        got = str(got)
    if got != expected:
        out.append((f"C18/precedence/wrong-value/{src}/{kind.rstrip('?')}", f"{ctx}: effective value {got!r}, expected {expected!r}"))
    if not out and (attr in command_tokens() or (len(name) + len(attr) + rot) % 11 == 0):
        # the same cell through the parser of the whole command tree (options that share their name with a command, and a sample
        # of the others): the sibling commands must not get in the way
        st_t, cfg_t, err_t = parse(command, args, envd, filed, tree_path=name.split())
        if st_t != "ok":
            out.append((f"C18/precedence/full-command-line/rejected/{src}", f"gallia {name} ..: {ctx}: {st_t} {err_t[-300:]}"))
        else:
            got_t = getattr(cfg_t, attr)
            got_t = Path(got_t) if kind.startswith("path") and got_t is not None else str(got_t) if kind.startswith("target") and got_t is not None else got_t
            if got_t != expected:
                out.append((f"C18/precedence/full-command-line/wrong-value/{src}", f"gallia {name} ..: {ctx}: effective value {got_t!r}, expected {expected!r}"))
    # round trip of the stored configuration
    try:
        dumped = cfg.model_dump_json()
        again = command.CONFIG_TYPE(**json.loads(dumped))
        if json.loads(again.model_dump_json()) != json.loads(dumped):
            out.append((f"C18/roundtrip/differs/{name.replace(' ', '-')}", f"{ctx}: {dumped[:300]} -> {again.model_dump_json()[:300]}"))
    except Exception as e:  # noqa: BLE001
        out.append((f"C18/roundtrip/raises-{type(e).__name__}/{name.replace(' ', '-')}", f"{ctx}: {type(e).__name__}: {str(e)[:300]}"))
    return out, src


def check_bare_const(name: str, command: Any, cell: dict[str, Any], subset: tuple[bool, bool], d: Path, base: list[str]) -> list[tuple[str, str]]:
    """An option declared with a const value, given on the command line without a value: the effective value is the declared
    const - the command line wins whatever the environment or the config file hold for that option."""
    attr, kind, dd = cell["option"], cell["kind"], cell["decl"]
    env, file_ = subset
    long_opt = "--" + attr.replace("_", "-")
    args = _without(base, long_opt) + [long_opt]
    envd: dict[str, str] = {}
    filed: dict[str, Any] = {}
    other = values_for(kind, 2, d)
    if env:
        envd[f"GALLIA_{attr.upper()}"] = other[2]
    if file_:
        if dd["section"] is None:
            return []
        filed = nested(dd["section"], attr, other[3])
    status, cfg, err = parse(command, args, envd, filed)
    ctx = f"{name} {attr} ({kind}, const={dd['const']!r}) bare flag on the command line, env={envd} file={filed}"
    if status != "ok":
        return [(f"C18/const-flag/rejected/{'+'.join(n for n, on in zip(('env', 'file'), subset) if on) or 'cli-only'}", f"{ctx}: {status} {err[-200:]}")]
    got = getattr(cfg, attr)
    if got != dd["const"]:
        return [(f"C18/const-flag/wrong-value/{'+'.join(n for n, on in zip(('env', 'file'), subset) if on) or 'cli-only'}", f"{ctx}: effective value {got!r}, the declared const is {dd['const']!r}")]
    return []


def _without(base: list[str], long_opt: str) -> list[str]:
    """the solver's dummy value for a required option must not compete with the sources under test"""
    args = list(base)
    while long_opt in args:
        i = args.index(long_opt)
        del args[i:i + 2]
    return args


def check_invalid(name: str, command: Any, cell: dict[str, Any], source: str, base: list[str], d: Path | None = None) -> list[tuple[str, str]]:
    """source = where the invalid value comes from; "a+b" = invalid value from a while the lower-priority source b holds a valid one
    (the message has to blame a)."""
    attr, kind, dd = cell["option"], cell["kind"], cell["decl"]
    long_opt = "--" + attr.replace("_", "-")
    args, envd, filed = _without(base, long_opt), {}, {}
    source, _, lower = source.partition("+")
    if lower:
        good = values_for(kind, 0, d or Path("/nonexistent"))
        if lower == "env":
            envd[f"GALLIA_{attr.upper()}"] = good[2]
        else:
            if dd["section"] is None:
                return []
            filed = nested(dd["section"], attr, good[3])
    if source == "cli":
        args += [long_opt, "zz"]
        needle = f"argument {long_opt}" if dd["short"] is None else f"argument -{dd['short']}, {long_opt}"
    elif source == "env":
        envd[f"GALLIA_{attr.upper()}"] = "zz"
        needle = f"environment variable (GALLIA_{attr.upper()})"
    else:
        if dd["section"] is None:
            return []
        filed = nested(dd["section"], attr, "zz")
        needle = f"config file ({dd['section']}:{attr})"
    status, _cfg, err = parse(command, args, envd, filed)
    src = source + (f"+valid-{lower}" if lower else "")
    ctx = f"{name} {attr} ({kind}) invalid value via {src}"
    if status == "ok":
        return [(f"C18/invalid-value/accepted/{src}/{kind.rstrip('?')}", f"{ctx}: accepted; effective value {getattr(_cfg, attr)!r}")]
    if status != "exit2":
        return [(f"C18/invalid-value/{status}/{src}", f"{ctx}: {err[-200:]}")]
    last = err.strip().splitlines()[-1] if err.strip() else ""
    if needle not in err:
        return [(f"C18/invalid-value/source-not-named/{src}", f"{ctx}: message {last[:200]!r} does not contain {needle!r}")]
    if lower:
        other = f"GALLIA_{attr.upper()}" if lower == "env" else f"config file ({dd['section']}:{attr})"
        if other in err[max(err.rfind("error: "), err.rfind("errors: ")):]:
            return [(f"C18/invalid-value/wrong-source-blamed/{src}", f"{ctx}: message {last[:200]!r} blames {other!r}, whose value is valid")]
    return []


def check_metadata(known_lost: set[str] | None = None) -> tuple[list[tuple[str, str]], list[str]]:
    lost: list[str] = []
    for name, command in flat_commands():
        ct = command.CONFIG_TYPE
        for attr, dd in declared_for(ct).items():
            if dd["hidden"] or attr not in ct.model_fields:
                continue
            if not intact(ct.model_fields[attr], dd):
                lost.append(f"{dd['cls']}.{attr}")
    lost = sorted(set(lost))
    return [], lost


KNOWN_LOST_FILE = Path(__file__).resolve().parent.parent.parent / "known_lost_metadata.json"


def metadata_violations() -> list[tuple[str, str]]:
    _, lost = check_metadata()
    listed = set(json.loads(KNOWN_LOST_FILE.read_text())) if KNOWN_LOST_FILE.exists() else set()
    out = []
    if any(x in listed for x in lost):
        out.append(("C18/declared-metadata-lost/annotated-alias-fields",
                    f"{sum(x in listed for x in lost)} declarations typed with an Annotated alias (AutoInt, Ranges, Idempotent[TargetURI], EnumArg, HexBytes ..) lose positional / short / config_section under the installed pydantic, e.g. {[x for x in lost if x in listed][:4]}"))
    for x in lost:
        if x not in listed:
            out.append((f"C18/declared-metadata-lost/{x}", f"declaration {x}: Field() metadata (positional/short/config_section) does not survive model construction"))
    return out


def check_template() -> list[tuple[str, str]]:
    from gallia.cli import gallia as cli
    from gallia.command.config import _VERIF_DECLARED_FIELDS

    buf = io.StringIO()
    with contextlib.redirect_stdout(buf):
        cli.template()
    section = ""
    have: set[tuple[str, str]] = set()
    for line in buf.getvalue().splitlines():
        m = re.match(r"\[(.+)\]$", line.strip())
        if m:
            section = m.group(1)
            continue
        m = re.match(r"(?:# )?([A-Za-z_][A-Za-z0-9_]*) = ", line)
        if m:
            have.add((section, m.group(1)))
    out = []
    for cls, attr, sec, _pos, _short, _const, hidden in _VERIF_DECLARED_FIELDS:
        if hidden or sec is None:
            continue
        if (sec, attr) not in have:
            out.append((f"C18/template/missing/{sec}.{attr}", f"{cls.__qualname__}.{attr} is file-configurable under [{sec}] but the template does not list it"))
    # the template is a valid gallia.toml, and using it as it stands changes nothing: for every command the configuration parsed
    # with the template as config file equals the one parsed without a file
    import tomllib

    try:
        toml = tomllib.loads(buf.getvalue())
    except Exception as e:  # noqa: BLE001
        out.append(("C18/template/not-valid-toml", f"tomllib: {e}"))
        return out
    # A file key shared by several commands can have different built-in defaults per command (`properties` is on for scanners, off
    # for primitives) - the template can only show one of them. Only keys whose default is the same wherever they are declared
    # must be left unchanged by the template.
    defaults: dict[str, set[str]] = {}
    for _name, command in flat_commands():
        for k, f in command.CONFIG_TYPE.model_fields.items():
            defaults.setdefault(k, set()).add(repr(f.get_default()) if not f.is_required() else "<required>")
    for name, command in flat_commands():
        base = base_args(name, command)
        if base is None:
            continue
        s0, c0, e0 = parse(command, base, {}, {})
        s1, c1, e1 = parse(command, base, {}, buf.getvalue())
        if s0 != "ok":
            continue
        if s1 != "ok":
            out.append((f"C18/template/rejected-as-config-file/{name.replace(' ', '-')}", f"{name}: {s1} {e1[-200:]}"))
            continue
        j0, j1 = json.loads(c0.model_dump_json()), json.loads(c1.model_dump_json())
        diff = [k for k in j0 if j0[k] != j1.get(k) and len(defaults.get(k, set())) == 1]
        if diff:
            out.append((f"C18/template/changes-defaults/{diff[0]}", f"{name}: with the template as gallia.toml {diff[:4]} differ: "
                        f"{[(k, j0[k], j1.get(k)) for k in diff[:3]]}"))
    return out


def shards(tier: str) -> list[dict[str, Any]]:
    return [{"what": "cells", "part": i, "parts": 15, "rot": [0] if tier == "quick" else [0, 1, 2]} for i in range(15)] + [{"what": "static"}]


def run_shard(spec: dict[str, Any], seed: int) -> Collector:
    import gallia.cli.gallia  # noqa: F401

    col = Collector()
    if spec["what"] == "static":
        for b, m in metadata_violations():
            col.violation(b, {"kind": "metadata"}, m)
        _, lost = check_metadata()
        col.case("metadata", True, cls="static/metadata", sample={"lost_declarations": lost[:8], "n_lost": len(lost)})
        try:
            for b, m in check_template():
                col.violation(b, {"kind": "template"}, m)
        finally:
            import shutil

            shutil.rmtree(toml_path().parent, ignore_errors=True)
        col.case("template", True, cls="static/template")
        return col
    d = Path(tempfile.mkdtemp(prefix="vf-c18."))
    cmds = flat_commands()
    unmodelled_cmds, skipped_lost, skipped_kind = [], 0, 0
    try:
        for ci, (name, command) in enumerate(cmds):
            if ci % spec["parts"] != spec["part"]:
                continue
            base = base_args(name, command)
            if base is None:
                unmodelled_cmds.append(name)
                continue
            for cell in option_cells(name, command, d):
                if not cell["intact"]:
                    skipped_lost += 1
                    col.exclude("C18/declared-metadata-lost/annotated-alias-fields", 1)
                    continue
                if cell["kind"] is None:
                    skipped_kind += 1
                    continue
                for rot in spec["rot"]:
                    for subset in itertools.product([False, True], repeat=3):
                        res, label = check_cell(name, command, cell, subset, d, base, rot + (seed % 3))
                        case = {"kind": "cell", "command": name, "option": cell["option"], "subset": list(subset), "rot": rot + (seed % 3)}
                        col.case((name, cell["option"], subset, rot), sum(subset) >= 2, cls=f"{cell['kind']}/{label}", sample=case)
                        for b, m in res:
                            col.violation(b, case, m)
                if cell["decl"].get("const") is not None and "Undefined" not in type(cell["decl"]["const"]).__name__ and cell["kind"].rstrip("?") in ("int", "autoint", "float", "str") and not cell["decl"]["positional"]:
                    for sub2 in itertools.product([False, True], repeat=2):
                        case = {"kind": "const", "command": name, "option": cell["option"], "subset": list(sub2)}
                        col.case((name, cell["option"], "const", sub2), True, cls="const-flag/" + ("+".join(n for n, on in zip(("env", "file"), sub2) if on) or "cli-only"), sample=case)
                        for b, m in check_bare_const(name, command, cell, sub2, d, base):
                            col.violation(b, case, m)
                if cell["kind"].rstrip("?") in INVALID_KINDS and not cell["decl"]["positional"]:
                    for source in ("cli", "env", "file", "cli+env", "cli+file", "env+file"):
                        case = {"kind": "invalid", "command": name, "option": cell["option"], "source": source}
                        col.case((name, cell["option"], "invalid", source), True, cls=f"invalid/{source}", sample=case)
                        for b, m in check_invalid(name, command, cell, source, base, d):
                            col.violation(b, case, m)
    finally:
        import shutil

        shutil.rmtree(d, ignore_errors=True)
        shutil.rmtree(toml_path().parent, ignore_errors=True)
    if unmodelled_cmds:
        col.notes.append(f"commands whose required options the solver could not satisfy: {unmodelled_cmds}")
    col.notes.append(f"shard {spec['part']}: {skipped_lost} option instances skipped (metadata lost, known finding), {skipped_kind} skipped (type not modelled)")
    return col


def replay(witness: Any) -> list[tuple[str, str]]:
    import gallia.cli.gallia  # noqa: F401

    w = unjson(witness)
    if w.get("kind") == "metadata":
        return metadata_violations()
    if w.get("kind") == "template":
        try:
            return check_template()
        finally:
            import shutil

            shutil.rmtree(toml_path().parent, ignore_errors=True)
    cmds = dict(flat_commands())
    command = cmds[w["command"]]
    base = base_args(w["command"], command)
    if base is None:
        return []
    d = Path(tempfile.mkdtemp(prefix="vf-c18r."))
    try:
        cell = next(c for c in option_cells(w["command"], command, d) if c["option"] == w["option"])
        if w["kind"] == "invalid":
            return check_invalid(w["command"], command, cell, w["source"], base, d)
        if w["kind"] == "const":
            return check_bare_const(w["command"], command, cell, tuple(w["subset"]), d, base)
        if not cell["intact"] or cell["kind"] is None:
            return []
        return check_cell(w["command"], command, cell, tuple(w["subset"]), d, base, w.get("rot", 0))[0]
    finally:
        import shutil

        shutil.rmtree(d, ignore_errors=True)
        shutil.rmtree(toml_path().parent, ignore_errors=True)
