"""C05 - Concurrent users of one UDS client never interleave their exchanges."""

from __future__ import annotations

import asyncio
from typing import Any

from hypothesis import strategies as st

from vf.core import Collector, run_given, shrink_bucket, unjson
from vf.vtime import run_virtual

PROPERTY = "C05"
LEVEL = "exploration"
RULE = (
    "Schedules generated as data: 2..5 callers of one ECU client, each a short program of reads (distinct DIDs) and ECU.set_session() calls "
    "(distinct session levels) so that every request and reply is attributable, "
    "optionally the cyclic tester-present worker (generated interval) and explicit reconnect() calls; each caller has a start "
    "delay, max_retry 0/1 and a reply script per transmission (immediate, delayed, pending x k then final, no reply, late reply "
    "after the timeout, connection error); optionally one caller is cancelled at a generated virtual instant. The scripted "
    "transport tags every write/read with the current task; virtual time makes the interleaving a pure function of the delays. "
    "Invariants over the recorded history: between a caller's first transmission and the return of its request() no other task "
    "transmits; every value returned to a caller carries its own DID; all callers finish (no deadlock) after a cancellation or "
    "A third party may stop the worker, ping and restart it (also through wait_for_ecu()); reply scripts include pending-then-silence; after everybody has finished the worker must still transmit. "
    "failure; the worker never dies. Non-trivial: >= 2 exchanges that would overlap without the lock (a caller arrives while "
    "another one's exchange is open). Distinct by schedule."
)
ASSUMPTIONS = [
    "asyncio tasks on one loop are the only form of concurrency (the client is single-threaded by design)",
    "the scripted transport delivers replies through one FIFO, like a byte stream: a late reply is read by whoever reads next",
]

TIMEOUT = 1.0


class SchedTransport:
    def __init__(self, scripts: dict[int, list[list[Any]]], tp_script: list[Any], trace: list[tuple[Any, ...]]) -> None:
        from gallia.transports import TargetURI

        self.mutex = asyncio.Lock()
        self.target = TargetURI("tcp-lines://192.0.2.9:1")
        self.is_closed = False
        self.scripts = {k: list(v) for k, v in scripts.items()}
        self.tp_script = tp_script
        self.trace = trace
        self.queue: asyncio.Queue[bytes | BaseException] = asyncio.Queue()
        self.reconnects = 0
        self.generation = 0

    def _who(self) -> str:
        t = asyncio.current_task()
        return t.get_name() if t else "?"

    def _now(self) -> float:
        return asyncio.get_event_loop().time()

    def _deliver(self, gen: int, item: bytes | BaseException) -> None:
        if gen == self.generation:
            self.queue.put_nowait(item)

    async def write(self, data: bytes, timeout: float | None = None, tags: list[str] | None = None) -> int:
        loop = asyncio.get_event_loop()
        self.trace.append(("write", self._now(), self._who(), bytes(data)))
        if data[0] == 0x3E:
            sc = self.tp_script
            if data[1] & 0x80:
                sc = ["none"]
            final = b"\x7e\x00"
            pend = b"\x7f\x3e\x78"
        elif data[0] == 0x10:
            # DiagnosticSessionControl to the caller's private session level 0x40+i
            lst = self.scripts.get(0x1000 + (data[1] & 0x3F), [])
            sc = lst.pop(0) if lst else ["imm"]
            final = b"\x50" + bytes([data[1] & 0x7F]) + b"\x00\x32\x01\xf4"  # (an ECU that ignores the suppress bit answers without it)
            pend = b"\x7f\x10\x78"
        else:
            did = int.from_bytes(data[1:3], "big")
            lst = self.scripts.get(did, [])
            sc = lst.pop(0) if lst else ["imm"]
            final = b"\x62" + data[1:3] + b"\xaa"
            pend = b"\x7f\x22\x78"
        g = self.generation
        k = sc[0]
        if k == "imm":
            loop.call_later(0.001, self._deliver, g, final)
        elif k == "delay":
            loop.call_later(sc[1], self._deliver, g, final)
        elif k == "pending":
            for i in range(sc[1]):
                loop.call_later(0.05 + 0.3 * i, self._deliver, g, pend)
            loop.call_later(0.05 + 0.3 * sc[1] + sc[2], self._deliver, g, final)
        elif k == "late":
            loop.call_later(sc[1], self._deliver, g, final)
        elif k == "error":
            loop.call_later(0.01, self._deliver, g, ConnectionResetError("script"))
        elif k == "pending-error":
            # ResponsePending replies, then the connection is lost before the final reply
            for i in range(sc[1]):
                loop.call_later(0.05 + 0.3 * i, self._deliver, g, pend)
            loop.call_later(0.05 + 0.3 * sc[1], self._deliver, g, ConnectionResetError("script"))
        elif k == "pending-silent":
            # ResponsePending replies, then nothing at all (the connection stays open): the request ends after the silence limit
            for i in range(sc[1]):
                loop.call_later(0.05 + 0.3 * i, self._deliver, g, pend)
        elif k == "none":
            pass
        else:
            raise AssertionError(k)
        await asyncio.sleep(0)
        return len(data)

    async def read(self, timeout: float | None = None, tags: list[str] | None = None) -> bytes:
        who = self._who()
        item = await asyncio.wait_for(self.queue.get(), timeout)
        self.trace.append(("read", self._now(), who, item if isinstance(item, bytes) else repr(item)))
        if isinstance(item, BaseException):
            raise item
        return item

    async def request_unsafe(self, data: bytes, timeout: float | None = None, tags: list[str] | None = None) -> bytes:
        await self.write(data, timeout, tags)
        return await self.read(timeout, tags)

    async def request(self, data: bytes, timeout: float | None = None, tags: list[str] | None = None) -> bytes:
        async with self.mutex:
            return await self.request_unsafe(data, timeout, tags)

    async def close(self) -> None:
        pass

    async def reconnect(self, timeout: float | None = None) -> "SchedTransport":
        self.trace.append(("reconnect", self._now(), self._who(), b""))
        self.reconnects += 1
        await asyncio.sleep(0.05)
        self.generation += 1
        while not self.queue.empty():
            self.queue.get_nowait()
        return self


script_s = st.one_of(
    st.just(["imm"]), st.just(["imm"]),
    st.tuples(st.just("delay"), st.sampled_from([0.1, 0.3, 0.6, 0.9])).map(list),
    st.tuples(st.just("pending"), st.integers(1, 4), st.sampled_from([0.1, 0.4])).map(list),
    st.just(["none"]),
    st.tuples(st.just("late"), st.sampled_from([1.2, 1.7, 2.4])).map(list),
    st.just(["error"]),
    st.tuples(st.just("pending-error"), st.integers(1, 2)).map(list),
    st.tuples(st.just("pending-silent"), st.integers(1, 2)).map(list),
)


@st.composite
def case_s(draw) -> dict[str, Any]:
    n = draw(st.integers(2, 5))
    callers = []
    for i in range(n):
        # a caller is a piece of scanner code: one read, or a short program of reads and session changes through the ECU-level
        # helpers (set_session runs its hooks and the session change; any of them may fail)
        ops = draw(st.one_of(st.just(["read"]), st.just(["read"]), st.just(["read-raw"]), st.lists(st.sampled_from(["read", "read-raw", "session", "session", "session-suppressed"]), min_size=1, max_size=3)))
        callers.append({"did": 0x1000 + i, "start": draw(st.sampled_from([0, 0, 0.05, 0.1, 0.2, 0.35, 0.5, 0.7, 1.0, 1.3, 2.0])),
                        "max_retry": draw(st.integers(0, 1)), "scripts": draw(st.lists(script_s, min_size=1, max_size=2 if len(ops) == 1 else 4)), "ops": ops})
    if draw(st.integers(0, 5)) == 0:
        # an undisturbed ECU: every reply comes at once or after a delay below the request timeout; nobody is cancelled
        for c in callers:
            c["scripts"] = [draw(st.sampled_from([["imm"], ["delay", 0.1], ["delay", 0.3], ["delay", 0.6], ["delay", 0.9]])) for _ in c["scripts"]]
        return {"callers": callers, "tp_interval": draw(st.one_of(st.none(), st.sampled_from([0.1, 0.25, 0.4, 0.9]))),
                "tp_script": draw(st.sampled_from([["imm"], ["delay", 0.3]])), "cancel": None, "reconnect_at": None, "stop_worker_at": None, "stop_how": "stop+ping"}
    return {"callers": callers,
            "tp_interval": draw(st.one_of(st.none(), st.sampled_from([0.1, 0.25, 0.4, 0.9]))),
            "tp_script": draw(st.sampled_from([["imm"], ["imm"], ["delay", 0.3], ["none"], ["pending", 1, 0.1]])),
            "cancel": draw(st.one_of(st.none(), st.tuples(st.integers(0, n - 1), st.sampled_from([0.0005, 0.02, 0.06, 0.15, 0.33, 0.51, 0.8, 1.05, 1.21, 1.5])).map(list))),
            "reconnect_at": draw(st.one_of(st.none(), st.sampled_from([0.02, 0.3, 0.75, 1.1]))),
            # somebody stops the tester-present worker (as wait_for_ecu() does), pings, and starts it again - whatever the others are doing
            "stop_worker_at": draw(st.one_of(st.none(), st.none(), st.sampled_from([0.03, 0.12, 0.3, 0.55, 0.75, 1.1]))),
            "stop_how": draw(st.sampled_from(["stop+ping", "wait_for_ecu"]))}


def run_case(case: dict[str, Any]) -> dict[str, Any]:
    from gallia.services.uds.core import service
    from gallia.services.uds.core.client import UDSRequestConfig
    from gallia.services.uds.ecu import ECU

    trace: list[tuple[Any, ...]] = []
    results: dict[str, Any] = {}
    windows: dict[str, list[float]] = {}
    ping_windows: list[list[float | str]] = []
    op_windows: list[list[Any]] = []
    state: dict[str, Any] = {}

    async def go() -> None:
        loop = asyncio.get_event_loop()
        tr = SchedTransport({c["did"]: c["scripts"] for c in case["callers"]}, case["tp_script"], trace)
        ecu = ECU(tr, timeout=TIMEOUT, max_retry=0)  # type: ignore[arg-type]
        orig_ping = ecu.ping

        async def ping(config: Any = None) -> Any:  # bookkeeping only: when did a ping start and end
            w: list[float | str] = [loop.time(), -1.0, asyncio.current_task().get_name()]  # type: ignore[union-attr]
            ping_windows.append(w)
            try:
                return await orig_ping(config)
            finally:
                w[1] = loop.time()

        ecu.ping = ping  # type: ignore[method-assign]

        async def caller(c: dict[str, Any], name: str) -> None:
            try:
                await asyncio.sleep(c["start"])
            except asyncio.CancelledError:
                results[name] = ("cancelled", None)  # cancelled before it ever touched the client
                raise
            windows[name] = [loop.time(), -1.0]
            idx = c["did"] - 0x1000
            try:
                for j, op in enumerate(c.get("ops") or ["read"]):
                    w: list[Any] = [name, j, op, loop.time(), -1.0, None, len(trace), -1]
                    op_windows.append(w)
                    try:
                        cfg = UDSRequestConfig(max_retry=c["max_retry"])
                        if op == "read":
                            r = await ecu.request(service.ReadDataByIdentifierRequest(c["did"]), cfg)
                            w[5] = ("ok", r.pdu)
                        elif op == "read-raw":  # the same read through send_raw()
                            r = await ecu.send_raw(b"\x22" + c["did"].to_bytes(2, "big"), cfg)
                            w[5] = ("ok", r.pdu)
                        elif op == "session-suppressed":
                            # the request carries the suppress bit, the ECU answers all the same (late, pending first, ..): the
                            # exchange is as atomic as any other for as long as the client waits for it
                            r = await ecu.diagnostic_session_control(0x40 + idx, suppress_response=True, config=cfg)
                            w[5] = ("ok", r.pdu)
                        else:
                            r = await ecu.set_session(0x40 + idx, config=cfg)
                            w[5] = ("ok", r.pdu)
                        if j == 0 or results.get(name, ("ok",))[0] == "ok":
                            results[name] = w[5] if op in ("read", "read-raw") else results.get(name, ("ok", None))
                    except asyncio.CancelledError:
                        w[5] = ("cancelled", None)
                        results[name] = ("cancelled", None)
                        raise
                    except Exception as e:  # noqa: BLE001
                        w[5] = ("exc", type(e).__name__)
                        results[name] = ("exc", type(e).__name__)
                    finally:
                        w[4] = loop.time()
                        w[7] = len(trace)
                results.setdefault(name, ("ok", None))
            finally:
                windows[name][1] = loop.time()

        async def reconnector(at: float) -> None:
            await asyncio.sleep(at)
            try:
                await ecu.reconnect()
            except Exception as e:  # noqa: BLE001
                results["rc"] = ("exc", type(e).__name__)

        async def stopper(at: float) -> None:
            await asyncio.sleep(at)
            try:
                if case.get("stop_how") == "wait_for_ecu":
                    # the library's own way of doing this: wait_for_ecu() stops the worker and pings until the ECU answers
                    state["stopped"] = True
                    await ecu.wait_for_ecu(timeout=3.0)
                else:
                    await ecu.stop_cyclic_tester_present()
                    state["stopped"] = True
                    await ecu.ping()
            except Exception as e:  # noqa: BLE001
                results["stopper"] = ("exc", type(e).__name__)
            finally:
                await ecu.start_cyclic_tester_present(case["tp_interval"])
                state["worker"] = ecu.tester_present_task

        if case["tp_interval"] is not None:
            await ecu.start_cyclic_tester_present(case["tp_interval"])
            state["worker"] = ecu.tester_present_task
        tasks = [loop.create_task(caller(c, f"c{i}"), name=f"c{i}") for i, c in enumerate(case["callers"])]
        if case["tp_interval"] is not None and case.get("stop_worker_at") is not None:
            tasks.append(loop.create_task(stopper(case["stop_worker_at"]), name="stopper"))
        if case["reconnect_at"] is not None:
            tasks.append(loop.create_task(reconnector(case["reconnect_at"]), name="rc"))
        if case["cancel"] is not None:
            idx, at = case["cancel"]
            loop.call_later(case["callers"][idx]["start"] + at, tasks[idx].cancel)
        # every attempt may legitimately last the silence limit (20 s) when the ECU goes quiet behind a ResponsePending, and the
        # callers are served one after the other: the budget for "everybody is done" grows with the amount of work
        budget = 120 + 25 * sum(len(c.get("ops") or ["read"]) * (c["max_retry"] + 1) for c in case["callers"])
        state["budget"] = budget
        done, pending = await asyncio.wait(tasks, timeout=budget)
        state["unfinished"] = sorted(t.get_name() for t in pending)
        for t in pending:
            t.cancel()
        w = state.get("worker")
        if w is not None and not w.done():
            # everybody is done: the worker goes on pinging at its interval, whatever the requests before it ended with
            n0 = sum(1 for e in trace if e[0] == "write" and e[3][:1] == b"\x3e")
            await asyncio.sleep(3 * case["tp_interval"] + 2 * TIMEOUT + 0.5)
            state["idle_pings"] = sum(1 for e in trace if e[0] == "write" and e[3][:1] == b"\x3e") - n0
        if w is not None:
            state["worker_dead"] = w.done()
            if w.done() and not w.cancelled():
                state["worker_exc"] = repr(w.exception())
            await ecu.stop_cyclic_tester_present()

    status, val, dur = run_virtual(go, max_virtual=1e4)
    return {"status": status, "val": val, "trace": trace, "results": results, "windows": windows, "pings": ping_windows, "ops": op_windows, "state": state, "dur": dur}


def check(case: dict[str, Any]) -> list[tuple[str, str]]:
    r = run_case(case)
    out: list[tuple[str, str]] = []
    if r["status"] != "ok":
        return [(f"C05/run-{r['status']}", f"harness run ended {r['status']}: {r['val']!r}; unfinished={r['state'].get('unfinished')}")]
    names = [f"c{i}" for i in range(len(case["callers"]))]
    # Attribute every transport event to a caller by WHAT was transmitted (the DID identifies the caller), not by the task that
    # happened to run it: an implementation may run an exchange in a helper task (e.g. under asyncio.shield).
    did_owner = {c["did"]: f"c{i}" for i, c in enumerate(case["callers"])}
    task_owner: dict[str, str] = {n: n for n in names}
    def owner_of(data: bytes) -> str | None:
        if data[0] == 0x22 and int.from_bytes(data[1:3], "big") in did_owner:
            return did_owner[int.from_bytes(data[1:3], "big")]
        if data[0] == 0x10 and 0x40 <= data[1] & 0x7F < 0x40 + len(names):
            return f"c{(data[1] & 0x7F) - 0x40}"
        return None

    for k, t, who, data in r["trace"]:
        if k == "write" and who not in task_owner and owner_of(data):
            task_owner[who] = owner_of(data)  # type: ignore[assignment]
    trace = [(k, t, task_owner.get(who, who), data) for k, t, who, data in r["trace"]]
    writes = [(t, who, data) for k, t, who, data in trace if k == "write"]
    recs = [(t, who) for k, t, who, _ in trace if k == "reconnect"]
    # a request transmitted by a caller's task always is that caller's own
    for t, who, data in writes:
        if who in names and owner_of(data) not in (None, who):
            out.append(("C05/foreign-request-transmitted", f"{who} transmitted {data.hex()} which belongs to {owner_of(data)}"))
            break
    # exchange windows: first own transmission of an operation .. the operation returned (one operation = one request())
    ops = r.get("ops") or []
    # (positions in the event log, not instants, delimit an operation: two operations of one caller may meet in one instant)
    itrace = list(enumerate(trace))
    for name, j, op, t0, t1, _res, i0, i1 in ops:
        t1 = t1 if t1 >= 0 else 1e18
        i1 = i1 if i1 >= 0 else len(trace)
        own = [i for i, (k, t, who, _) in itrace if k == "write" and who == name and i0 <= i < i1]
        if not own:
            continue
        ia, a, b = own[0], trace[own[0]][1], t1
        hit = False
        # between a request and its final reply "no other request is transmitted on that transport": that holds for the caller
        # itself as well - it may retransmit its request, nothing else
        for i in own[1:]:
            if trace[i][3] != trace[ia][3]:
                out.append(("C05/interleaved/other-request-by-the-caller-inside-its-exchange",
                            f"{name} transmitted {trace[i][3].hex()} at t={trace[i][1]:.3f} while its request {trace[ia][3].hex()} ({op} #{j}) was still open [{a:.3f}, {b:.3f}]; {_tr(trace)}"))
                hit = True
                break
        if hit:
            break
        for i, (k, t, who, data) in itrace:
            if not (ia < i < i1 and t < b - 1e-9) or who == name:
                continue
            if k == "write":
                kind = "tester-present" if data[0] == 0x3E else "request"
                out.append((f"C05/interleaved/{kind}-inside-exchange",
                            f"{who} transmitted {data.hex()} at t={t:.3f} inside the exchange ({op} #{j}) of {name} [{a:.3f}, {b:.3f}]; {_tr(trace)}"))
            elif k == "reconnect":
                out.append(("C05/interleaved/reconnect-inside-exchange", f"{who} reconnected at t={t:.3f} inside the exchange of {name} [{a:.3f}, {b:.3f}]"))
            else:
                # while an exchange is open only its owner consumes replies from the transport
                out.append(("C05/interleaved/foreign-read-inside-exchange",
                            f"{who} consumed {data.hex() if isinstance(data, bytes) else data} from the transport at t={t:.3f} inside the exchange of {name} [{a:.3f}, {b:.3f}]; {_tr(trace)}"))
            hit = True
            break
        if hit:
            break
    # nothing may be transmitted or consumed on behalf of a caller after its request() has returned or was cancelled
    for name in names:
        if name not in r["windows"]:
            continue
        end = r["windows"][name][1]
        late = [(k, t) for k, t, who, _ in trace if who == name and k in ("write", "read") and t > end + 1e-9]
        if late:
            out.append(("C05/exchange-continues-after-caller-finished", f"{name} finished/cancelled at t={end:.3f} but its exchange went on: {late[:4]}; {_tr(trace)}"))
            break
    # nothing goes wrong on the ECU's side (every reply is scripted to arrive at once or after a delay below the request timeout) and
    # nobody is cancelled, reconnects or stops the worker: then every operation of every caller gets its reply, however the callers
    # and the worker queue up
    benign = (case.get("cancel") is None and case.get("reconnect_at") is None and case.get("stop_worker_at") is None
              and (case["tp_interval"] is None or case["tp_script"][0] in ("imm", "delay"))
              and all(sc[0] == "imm" or (sc[0] == "delay" and sc[1] < TIMEOUT - 0.05) for c in case["callers"] for sc in c["scripts"]))
    if benign and not out:
        bad = [(w[0], w[2], w[5]) for w in r["ops"] if w[5] is None or w[5][0] != "ok"]
        if bad:
            out.append(("C05/reply-in-time-not-delivered", f"every reply arrives within the request timeout, yet {bad[:3]}; {_tr(trace)}"))
    # the worker's exchanges are protected as well
    for w0, w1, wname in r["pings"]:
        own = [t for t, who, _ in writes if who == wname and w0 <= t <= (w1 if w1 >= 0 else 1e18)]
        if not own:
            continue
        a, b = own[0], (w1 if w1 >= 0 else 1e18)
        for t, who, data in writes:
            if who != wname and a < t < b - 1e-9:
                out.append(("C05/interleaved/request-inside-tester-present-exchange",
                            f"{who} transmitted {data.hex()} at t={t:.3f} inside the tester-present exchange [{a:.3f}, {b:.3f}]"))
                break
    # replies are attributable
    for name, j, op, _t0, _t1, res, _i0, _i1 in ops:
        if res and res[0] == "ok" and res[1] is not None:
            i = int(name[1:])
            want = (b"\x62" + case["callers"][i]["did"].to_bytes(2, "big")) if op in ("read", "read-raw") else bytes([0x50, 0x40 + i])
            if res[1][: len(want)] != want:
                out.append(("C05/foreign-reply-returned", f"{name} ({op} #{j}, expects {want.hex()}..) got {res[1].hex()}"))
                break
    # progress
    if r["state"].get("unfinished"):
        out.append(("C05/no-progress", f"callers {r['state']['unfinished']} did not finish within {r['state'].get('budget', 120)} virtual seconds; results={r['results']}"))
    for name in names:
        if name not in r["results"] and name not in (r["state"].get("unfinished") or []):
            out.append(("C05/caller-vanished", f"{name} has no result"))
    if r["state"].get("idle_pings") == 0 and not r["state"].get("worker_dead"):
        out.append(("C05/worker-silent", f"tester-present worker alive but no TesterPresent within 3 intervals + 2 timeouts after everybody else had finished; results={r['results']}"))
    if r["state"].get("worker_dead"):
        out.append(("C05/worker-died", f"tester-present worker ended: {r['state'].get('worker_exc')}"))
    return out


def _tr(trace: list[tuple[Any, ...]]) -> str:
    return " ".join(f"{k[0]}:{who}@{t:.2f}" for k, t, who, _ in trace[:30])


def overlap(case: dict[str, Any], r: dict[str, Any]) -> bool:
    w = sorted(v for v in r["windows"].values())
    return any(w[i + 1][0] < w[i][1] for i in range(len(w) - 1))


def shards(tier: str) -> list[dict[str, Any]]:
    return [{"n": 200 if tier == "quick" else 20000} for _ in range(13)] + [{"n": 25 if tier == "quick" else 2500, "cancel_sweep": True} for _ in range(3)]


def cancel_points(case: dict[str, Any], victim: int) -> list[float]:
    """Every instant at which something happens to the victim's exchange in the uncancelled run (its own writes and reads,
    the instants it starts and finishes) - cancellation is then injected just before, at and just after each of them, which
    lands on every await point of the victim (lock acquisition, write, read, backoff sleep, pending poll)."""
    base = dict(case, cancel=None)
    r = run_case(base)
    if r["status"] != "ok":
        return []
    name = f"c{victim}"
    start = case["callers"][victim]["start"]
    ts = {t for k, t, who, _ in r["trace"] if who == name}
    w = r["windows"].get(name)
    if w:
        ts |= {w[0], w[1]}
    # also while it is queued behind others: instants of other callers' events before its first write
    first = min([t for k, t, who, _ in r["trace"] if who == name and k == "write"], default=None)
    if first is not None:
        ts |= {t for k, t, who, _ in r["trace"] if start <= t <= first}
    out = set()
    for t in ts:
        for d in (-0.0004, 0.0, 0.0004):
            if t + d - start >= 0:
                out.add(round(t + d - start, 6))
    return sorted(out)


def run_shard(spec: dict[str, Any], seed: int) -> Collector:
    col = Collector()

    def body(case: dict[str, Any]) -> None:
        res = check(case)
        r = run_case(case) if False else None
        # non-triviality from the schedule itself: a caller starts while an earlier one cannot have finished yet
        starts = sorted(c["start"] for c in case["callers"])
        nt = any(b - a < 0.05 for a, b in zip(starts, starts[1:])) or case["tp_interval"] is not None
        col.case(str(case), nt, cls=f"callers{len(case['callers'])}" + ("+tp" if case["tp_interval"] else "") + ("+cancel" if case["cancel"] else "")
                 + ("+reconnect" if case["reconnect_at"] is not None else ""), sample=case)
        for b_, m in res:
            col.violation(b_, case, m)

    if spec.get("cancel_sweep"):
        def sweep(case: dict[str, Any]) -> None:
            victim = (case["cancel"][0] if case["cancel"] else 0) % len(case["callers"])
            for off in cancel_points(case, victim)[:60]:
                body(dict(case, cancel=[victim, off]))

        run_given(case_s(), sweep, spec["n"], seed)
        col.exhaustive_parts.append("for each generated schedule of these shards: cancellation of one caller just before / at / just after every instant at which its exchange makes progress")
        return col
    run_given(case_s(), body, spec["n"], seed)
    return col


def replay(witness: Any) -> list[tuple[str, str]]:
    return check(unjson(witness))


def shrink(bucket: str, witness: Any, seed: int) -> Any:
    return shrink_bucket(case_s(), lambda c: {b for b, _ in check(c)}, bucket, seed, max_examples=1500)
