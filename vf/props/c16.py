"""C16 - A virtual ECU is fully determined by its seed and arguments."""

from __future__ import annotations

import json
import os
import shutil
import subprocess
import sys
import tempfile
from pathlib import Path
from typing import Any

from hypothesis import strategies as st

from vf import vecu
from vf.core import Collector, jsonable, run_given, unjson

PROPERTY = "C16"
LEVEL = "exploration"
RULE = (
    "Cases (seed incl. 0, negatives, 2^63; randomness parameters with probabilities 0..1 and mandatory/optional lists empty, "
    "default, full; request histories as in C14 with sendKey using the seed just received) are generated in batches and shipped "
    "as JSON to several fresh interpreters that differ in PYTHONHASHSEED (0, 1, 4242, random), import order (server module first "
    "vs whole command tree first), wall clock (+1e6 s), global random state, the order in which the batch is processed (so that state leaking "
    "between ECU instances of one process shows), whether all ECUs with equal arguments share one argument object and are set up twice, and whether the server is built directly or through the `vecu rng` command class. Oracle: identical session/service/sub-function "
    "model (canonical JSON) and byte-identical transcripts (security-access seed bytes and the keys derived from them masked) in "
    "all environments; structural: mandatory sessions and services present, and when DiagnosticSessionControl is offered "
    "everywhere every offered session is reachable from session 1 through offered sub-functions and offers session 1 itself. "
    "Non-trivial: the model has >= 2 sessions and the history changes session. Distinct by (seed, parameters, history)."
)
ASSUMPTIONS = [
    "process environments are represented by 4 (quick) / 8 (thorough) worker interpreters; thread scheduling and OS are the same",
    "security-access seeds are deliberately fresh and therefore masked, together with the keys computed from them",
]

ENVS = [
    {"PYTHONHASHSEED": "0", "VF_IMPORT_ORDER": "server-first"},
    {"PYTHONHASHSEED": "1", "VF_IMPORT_ORDER": "all-first", "VF_RNG_PERTURB": "1", "VF_ORDER": "reverse"},
    {"PYTHONHASHSEED": "4242", "VF_IMPORT_ORDER": "server-first", "VF_CLOCK_SHIFT": "1000000", "VF_RNG_PERTURB": "1", "VF_VIA_COMMAND": "1"},
    {"PYTHONHASHSEED": "random", "VF_IMPORT_ORDER": "all-first", "VF_ORDER": "interleave", "VF_REUSE_PARAMS": "1"},
    {"PYTHONHASHSEED": "random", "VF_IMPORT_ORDER": "server-first", "VF_RNG_PERTURB": "1", "VF_ORDER": "rotate:37"},
    {"PYTHONHASHSEED": "7", "VF_IMPORT_ORDER": "all-first", "VF_CLOCK_SHIFT": "-500000", "VF_VIA_COMMAND": "1", "VF_ORDER": "reverse"},
    {"PYTHONHASHSEED": "random", "VF_IMPORT_ORDER": "server-first", "VF_CLOCK_SHIFT": "31536000"},
    {"PYTHONHASHSEED": "123456789", "VF_IMPORT_ORDER": "all-first", "VF_RNG_PERTURB": "1", "VF_ORDER": "rotate:101"},
]


@st.composite
def case_s(draw) -> dict[str, Any]:
    seed = draw(st.one_of(st.sampled_from([0, 1, -1, -2**31, 2**63, 2**63 - 1, 42]), st.integers(0, 1000), st.integers(-2**63, 2**64)))
    return {"seed": seed, "params": draw(vecu.params_s()), "ops": draw(st.lists(vecu.op, min_size=1, max_size=30))}


def run_workers(cases: list[dict[str, Any]], envs: list[dict[str, str]]) -> list[list[dict[str, Any]] | str]:
    tmp = Path(tempfile.mkdtemp(prefix="vf-c16."))
    try:
        (tmp / "cases.json").write_text(json.dumps(jsonable(cases)))
        procs = []
        for i, e in enumerate(envs):
            env = dict(os.environ)
            env.update(e)
            procs.append(subprocess.Popen([sys.executable, "-m", "vf.c16_worker", str(tmp / "cases.json"), str(tmp / f"out{i}.json")],
                                          env=env, stdout=subprocess.DEVNULL, stderr=subprocess.PIPE, text=True))
        res: list[list[dict[str, Any]] | str] = []
        for i, p in enumerate(procs):
            _, err = p.communicate(timeout=3000)
            f = tmp / f"out{i}.json"
            if p.returncode != 0 or not f.exists():
                res.append(f"worker {i} failed rc={p.returncode}: {err[-500:]}")
            else:
                res.append(json.loads(f.read_text()))
        return res
    finally:
        shutil.rmtree(tmp, ignore_errors=True)


def structural(case: dict[str, Any], model: dict[str, Any]) -> list[tuple[str, str]]:
    out: list[tuple[str, str]] = []
    m = {int(s): {int(k): v for k, v in svcs.items()} for s, svcs in model.items()}
    p = case["params"]
    from gallia.services.uds.core.constants import UDSIsoServices

    mand_sessions = p.get("mandatory_sessions", [1])
    for s in mand_sessions:
        if s not in m:
            out.append(("C16/structure/mandatory-session-missing", f"seed={case['seed']} params={p}: session {s} not in model {sorted(m)}"))
    mand_services = [int(UDSIsoServices[x]) for x in p.get("mandatory_services", ["DiagnosticSessionControl"])]
    for s, svcs in m.items():
        for ms in mand_services:
            if ms not in svcs:
                out.append(("C16/structure/mandatory-service-missing", f"seed={case['seed']} params={p}: service {ms:#x} missing in session {s:#x}"))
    if 0x10 in mand_services:
        # reachability from the default session through offered DSC sub-functions
        seen = {1}
        todo = [1]
        while todo:
            x = todo.pop()
            for y in m.get(x, {}).get(0x10) or []:
                if y in m and y not in seen:
                    seen.add(y)
                    todo.append(y)
        for s in m:
            if s not in seen:
                out.append(("C16/structure/session-unreachable", f"seed={case['seed']} params={p}: session {s:#x} offered but unreachable from 0x01"))
            if 1 not in (m[s].get(0x10) or []):
                out.append(("C16/structure/no-way-back-to-default", f"seed={case['seed']} params={p}: session {s:#x} does not offer a change to 0x01"))
            for t in m[s].get(0x10) or []:
                if t not in m:
                    out.append(("C16/structure/dsc-target-not-offered", f"seed={case['seed']} params={p}: session {s:#x} offers change to {t:#x} which is not a session of the model"))
    return out


def compare(case: dict[str, Any], recs: list[dict[str, Any]], envs: list[dict[str, str]]) -> list[tuple[str, str]]:
    out: list[tuple[str, str]] = []
    base = recs[0]
    if "setup_error" in base:
        return [("C16/setup-raises", f"seed={case['seed']} params={case['params']}: {base['setup_error']}")]
    # steps whose outcome legitimately depends on a fresh security seed (empty seed => malformed sendKey) are masked in all
    # environments, and so is the security level from there on
    trs = [r.get("transcript") or [] for r in recs]
    n = min(len(t) for t in trs)
    tainted = False
    for k in range(n):
        if any(len(t[k]) > 1 and t[k][1] == "<empty-seed>" for t in trs):
            tainted = True
            for t in trs:
                t[k][1] = "*"
        if tainted:
            for t in trs:
                if len(t[k]) > 3:
                    t[k][3] = "*"
    for i, r in enumerate(recs[1:], 1):
        if r.get("model") != base.get("model"):
            out.append(("C16/model-differs", f"seed={case['seed']} params={case['params']}: env {envs[i]} vs {envs[0]}: models differ"))
            break
        if r.get("transcript") != base.get("transcript"):
            a, b = base["transcript"], r["transcript"]
            j = next((k for k in range(min(len(a), len(b))) if a[k] != b[k]), min(len(a), len(b)))
            sid = (a[j][0][:2] if j < len(a) else "??")
            out.append((f"C16/transcript-differs/sid{sid}", f"seed={case['seed']} env {envs[i]} vs {envs[0]}: step {j}: "
                        f"{a[j] if j < len(a) else None} vs {b[j] if j < len(b) else None}"))
            break
    out += structural(case, json.loads(base["model"]))
    return out


def evaluate(cases: list[dict[str, Any]], envs: list[dict[str, str]], col: Collector | None) -> list[list[tuple[str, str]]]:
    res = run_workers(cases, envs)
    bad = [r for r in res if isinstance(r, str)]
    if bad:
        raise RuntimeError("; ".join(bad))
    allv = []
    for ci, case in enumerate(cases):
        recs = [r[ci] for r in res]  # type: ignore[index]
        v = compare(case, recs, envs)
        allv.append(v)
        if col is not None:
            model = json.loads(recs[0]["model"]) if "model" in recs[0] else {}
            tr = recs[0].get("transcript", [])
            sessions = {t[2] for t in tr if len(t) > 2}
            col.case((case["seed"], str(case["params"]), str(case["ops"])), len(model) >= 2 and len(sessions) >= 2,
                     cls=f"sessions{min(len(model), 5)}/steps{min(len(tr) // 5 * 5, 30)}",
                     sample={"seed": case["seed"], "params": case["params"], "sessions_in_model": len(model), "transcript_head": tr[:5]})
    return allv


def shards(tier: str) -> list[dict[str, Any]]:
    if tier == "quick":
        return [{"n": 500, "envs": 4} for _ in range(4)]
    return [{"n": 6000, "envs": 8} for _ in range(4)]


def run_shard(spec: dict[str, Any], seed: int) -> Collector:
    col = Collector()
    cases: list[dict[str, Any]] = []
    run_given(case_s(), cases.append, spec["n"], seed)
    envs = ENVS[: spec["envs"]]
    for case, vs in zip(cases, evaluate(cases, envs, col)):
        for b, m in vs:
            col.violation(b, case, m)
    return col


def replay(witness: Any) -> list[tuple[str, str]]:
    case = unjson(witness)
    return evaluate([case], ENVS[:4], None)[0]
