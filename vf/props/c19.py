"""C19 - Line-based transports deliver every message intact, in order, one per read."""

from __future__ import annotations

import asyncio
import os
from binascii import hexlify
from typing import Any

from hypothesis import strategies as st

from vf.core import Collector, run_given, shrink_bucket, unjson
from vf.vtime import MemWriter, run_virtual, split_at

PROPERTY = "C19"
LEVEL = "exploration"
RULE = (
    "A case is (transport in {tcp-lines, unix-lines, server loop}, message sequence 1..40 msgs of 1..4095 bytes, "
    "segmentation of hex+LF stream into segments with integer virtual arrival times, a read program with timeouts at k+0.3701 "
    "placed before/inside/after partially delivered lines, EOF at the end - for the server loop also in the same instant as the last segment -, "
    "a write program in which chosen writes meet back-pressure until they time out: the peer must only see complete lines of written messages, in order). Read time limits come from the timeout argument or from an enclosing asyncio.timeout(). A reference model predicts the outcome of every "
    "read (message k / TimeoutError / end-of-stream b''). Short streams additionally get every single split point "
    "Also: an idle second connection sitting in a read, request_unsafe() round trips with a slow hand-over, a server connection that is above its high-water mark for good, a silent visitor in the real-socket shard. "
    "exhaustively. Non-trivial: a split inside a line, >=2 lines in one segment, or a timeout expiring inside a partially "
    "delivered line. Distinct by (messages, segmentation, read program)."
)
ASSUMPTIONS = [
    "The peer is modelled at the asyncio StreamReader boundary (feed_data/feed_eof); kernel segmentation shows up as "
    "feed_data boundaries",
    "virtual-time event loop; arrival times are integers and timeouts k+0.3701 so no tie between a timer and an arrival",
    "server loop is exercised through TCPUDSServerTransport.handle_client with handle_request replaced by a "
    "deterministic function of the request bytes, so only the line framing is under test (the codec is C14's subject)",
]

# ---------------------------------------------------------------------------------------------

msg = st.one_of(
    st.binary(min_size=1, max_size=8),
    st.binary(min_size=1, max_size=64),
    st.sampled_from([b"\x0a", b"\x0d\x0a", b"\x00", b"\xff", b"\x20", b"\x0a\x0a", b"\x3e\x00", b"\x3e\x80", b"\x3e\x80", b"\x10\x83", b"\x7f\x3e\x78"]),
    st.integers(1, 4095).flatmap(lambda n: st.binary(min_size=n, max_size=n)),
)


@st.composite
def case_s(draw, kinds=("tcp-lines", "unix-lines", "server", "tcp-lines", "unix-lines", "server", "server2")) -> dict[str, Any]:
    kind = draw(st.sampled_from(kinds))
    big = draw(st.integers(0, 9)) == 0
    msgs = draw(st.lists(msg if big else st.one_of(st.binary(min_size=1, max_size=8), msg.filter(lambda m: len(m) <= 64)),
                         min_size=1, max_size=40 if not big else 4))
    stream_len = sum(2 * len(m) + 1 for m in msgs)
    mode = draw(st.sampled_from(["one", "random", "random", "bytewise", "per-line"]))
    if mode == "one":
        cuts: list[int] = []
    elif mode == "bytewise" and stream_len <= 200:
        cuts = list(range(1, stream_len))
    elif mode == "per-line":
        cuts = []
        o = 0
        for m in msgs:
            o += 2 * len(m) + 1
            cuts.append(o)
    else:
        cuts = draw(st.lists(st.integers(1, max(1, stream_len - 1)), max_size=12, unique=True))
    cuts = sorted(set(c for c in cuts if 0 < c < stream_len))
    nseg = len(cuts) + 1
    gaps = draw(st.lists(st.sampled_from([0, 0, 1, 1, 2, 5]), min_size=nseg, max_size=nseg))
    # read program: timeouts (None = no timeout allowed only when data will certainly arrive: the model checks)
    reads = draw(st.lists(st.sampled_from([None, 0.3701, 0.3701, 1.3701, 2.3701, 7.3701, 1000.3701]), min_size=0, max_size=30))
    eof_gap = draw(st.sampled_from([0, 1, 3]))
    # write side: which of the first writes meet a peer that does not drain the stream (back-pressure until the write times out)
    wblock = draw(st.one_of(st.just([]), st.lists(st.booleans(), min_size=1, max_size=6)))
    # the peer dies in the middle of a further line: its first k characters (even and odd k) arrive, then end-of-stream
    partial = ""
    if kind not in ("server", "server2") and draw(st.integers(0, 3)) == 0:
        full = draw(st.binary(min_size=1, max_size=8)).hex()
        partial = full[: draw(st.integers(1, len(full)))]
    # which reads get their time limit from the caller (an enclosing asyncio.timeout(), as wait_for_ecu() and scanners do) instead of
    # the timeout argument: an abandoned read consumes nothing either
    outer = draw(st.one_of(st.just([]), st.lists(st.booleans(), min_size=len(reads), max_size=len(reads))))
    return {"kind": kind, "msgs": msgs, "cuts": cuts, "gaps": gaps, "reads": reads, "eof_gap": eof_gap, "wblock": wblock, "partial": partial, "outer": outer,
            "idle_peer": draw(st.sampled_from([0, 0, 0, 1, 2])) if kind not in ("server", "server2") else 0,
            "stuck_peer": kind == "server2" and draw(st.booleans()),
            "roundtrip": draw(st.one_of(st.none(), st.none(), st.tuples(st.sampled_from([0.0, 0.3001, 0.7001]), st.sampled_from([0.2, 0.6, 0.9, 1.3])).map(list)))
            if kind not in ("server", "server2") else None}


def f_reply(req: bytes, idx: int) -> bytes | None:
    if req[0] % 5 == 4:
        return None  # "suppressed": no line may be written
    return bytes(reversed(req)) + bytes([idx & 0xFF])


def _arrivals(case: dict[str, Any]) -> tuple[list[tuple[float, bytes]], float, bytes]:
    stream = b"".join(hexlify(m) + b"\n" for m in case["msgs"]) + (case.get("partial") or "").encode()
    segs = split_at(stream, case["cuts"])
    t = 0.0
    out = []
    gaps = case["gaps"]
    for i, s in enumerate(segs):
        t += gaps[i] if i < len(gaps) else 0
        out.append((t, s))
    return out, t + case["eof_gap"], stream


def _line_times(case: dict[str, Any]) -> list[float]:
    arr, _, _ = _arrivals(case)
    times = []
    pos = 0
    ends = []
    o = 0
    for m in case["msgs"]:
        o += 2 * len(m) + 1
        ends.append(o)
    k = 0
    for t, s in arr:
        pos += len(s)
        while k < len(ends) and ends[k] <= pos:
            times.append(t)
            k += 1
    return times


def _model_client(case: dict[str, Any]) -> list[tuple[str, Any, float]]:
    """Predict (kind, value, finish_time) for each read of the program followed by drain reads."""
    T = _line_times(case)
    _, t_eof, _ = _arrivals(case)
    msgs = case["msgs"]
    now = 0.0
    k = 0
    out = []
    prog = list(case["reads"]) + [1000.3701] * (len(msgs) + 2)
    for to in prog:
        if k < len(msgs):
            ready = max(now, T[k])
            if to is None or ready < now + to:
                out.append(("msg", msgs[k], ready))
                now = ready
                k += 1
            else:
                now = now + to
                out.append(("timeout", None, now))
        else:
            ready = max(now, t_eof)
            if to is None or ready < now + to:
                out.append(("eof", b"", ready))
                now = ready
            else:
                now = now + to
                out.append(("timeout", None, now))
    return out


def _schedule(loop: Any, reader: asyncio.StreamReader, arr: list[tuple[float, bytes]], t_eof: float | None) -> None:
    """Feed segments at their arrival times. Segments sharing an instant are fed by ONE timer callback, in order
    (separate timers with equal deadlines are not ordered by asyncio's heap)."""
    by_t: dict[float, list[bytes | None]] = {}
    for t, s in arr:
        by_t.setdefault(t, []).append(s)
    if t_eof is not None:
        by_t.setdefault(t_eof, []).append(None)

    def feed(items: list[bytes | None]) -> None:
        for it in items:
            if it is None:
                reader.feed_eof()
            else:
                reader.feed_data(it)

    for t in sorted(by_t):
        if t <= 0:
            feed(by_t[t])
        else:
            loop.call_at(t, feed, by_t[t])


class BPWriter(MemWriter):
    """MemWriter whose drain() can be made to block (a peer that does not read: the stream is above its high-water mark)."""

    blocked = False
    delay = 0.0        # seconds a drain() takes (a peer that reads slowly)
    slow_close = 0.0   # seconds the peer needs to take the backlog off the connection once it is being closed
    aborted = False

    async def drain(self) -> None:
        if self.blocked:
            await asyncio.sleep(3600)
        if self.delay:
            await asyncio.sleep(self.delay)
        await super().drain()

    async def wait_closed(self) -> None:
        if self.slow_close:
            await asyncio.sleep(self.slow_close)  # close() flushes what write() has accepted; that takes as long as the peer takes
        await super().wait_closed()

    def abort(self) -> None:
        self.aborted = True  # drops whatever has not been sent yet
        super().abort()


def _make_transport(kind: str, reader: asyncio.StreamReader, writer: MemWriter):
    from gallia.transports import TargetURI, TCPLinesTransport
    from gallia.transports.unix import UnixLinesTransport

    if kind == "tcp-lines":
        return TCPLinesTransport(TargetURI("tcp-lines://192.0.2.1:1"), reader, writer)  # type: ignore[arg-type]
    return UnixLinesTransport(TargetURI("unix-lines:///tmp/verif.sock"), reader, writer)  # type: ignore[arg-type]


def check(case: dict[str, Any]) -> list[tuple[str, str]]:
    kind = case["kind"]
    if kind == "server":
        return _check_server(case)
    if kind == "server2":
        return _check_server_multi(case)
    if kind == "real":
        return check_real(case)
    out: list[tuple[str, str]] = []
    expected = _model_client(case)
    arr, t_eof, _ = _arrivals(case)
    got: list[tuple[str, Any, float]] = []

    async def run() -> None:
        loop = asyncio.get_event_loop()
        reader = asyncio.StreamReader(limit=2**16)
        writer = BPWriter()
        tr = _make_transport(kind, reader, writer)
        idle_task = None
        if case.get("idle_peer"):
            # another line connection of the same process (a second ECU, a power supply) sits in a read that nothing answers
            idle = _make_transport(kind, asyncio.StreamReader(limit=2**16), BPWriter())
            idle_task = asyncio.ensure_future(idle.read(timeout=None if case["idle_peer"] == 1 else 100000.3))
            await asyncio.sleep(0)
        _schedule(loop, reader, arr, t_eof)
        prog = list(case["reads"]) + [1000.3701] * (len(case["msgs"]) + 2)
        outer = list(case.get("outer") or [])
        for i_, to in enumerate(prog):
            try:
                if to is not None and i_ < len(outer) and outer[i_]:
                    async with asyncio.timeout(to):
                        d = await tr.read(timeout=None)
                else:
                    d = await tr.read(timeout=to)
                got.append(("eof" if d == b"" else "msg", d, loop.time()))
            except TimeoutError:
                got.append(("timeout", None, loop.time()))
            except Exception as e:  # noqa: BLE001
                got.append(("exc", f"{type(e).__name__}: {e}", loop.time()))
                break
        if idle_task is not None:
            idle_task.cancel()
            try:
                await idle_task
            except BaseException:  # noqa: BLE001
                pass
        rt = case.get("roundtrip")
        if rt:
            # request_unsafe() = write() then read(), each with the timeout: a reply that arrives within the timeout after the
            # request has been handed over is the result, however long the hand-over took
            d_, frac = rt
            T_ = 1.0
            r2, w2 = asyncio.StreamReader(limit=2**16), BPWriter()
            w2.delay = d_
            tr2 = _make_transport(kind, r2, w2)
            reply = bytes(reversed(case["msgs"][0])) + b"\x01"
            loop.call_later(d_ + frac * T_, r2.feed_data, hexlify(reply) + b"\n")
            try:
                got_ = await tr2.request_unsafe(case["msgs"][0], timeout=T_)
            except Exception as e:  # noqa: BLE001
                got_ = f"{type(e).__name__}: {e}"
            want_ = reply if frac < 1.0 else None
            if want_ is not None and got_ != want_:
                out.append((f"C19/{kind}/request/reply-within-timeout-lost", f"hand-over took {d_} s, reply {frac} s after it, timeout {T_} s: {got_ if isinstance(got_, str) else got_.hex()[:40]}"))
            if want_ is None and not (isinstance(got_, str) and got_.startswith("TimeoutError")):
                out.append((f"C19/{kind}/request/no-timeout", f"hand-over took {d_} s, reply {frac} s after it, timeout {T_} s: {got_ if isinstance(got_, str) else got_.hex()[:40]}"))
        # write side: exactly hexlify(m)+LF per write; a write that times out under back-pressure may or may not have queued its
        # line, but the peer must only ever see complete lines of messages that were written, in order
        wblock = list(case.get("wblock") or [])
        written: list[tuple[bytes, bool]] = []
        n_start = len(writer.log)
        for i, m in enumerate(case["msgs"][:6]):
            n0 = len(writer.log)
            writer.blocked = i < len(wblock) and wblock[i]
            try:
                await tr.write(m, timeout=1.5)
                ok = True
            except TimeoutError:
                ok = False
            if ok and writer.blocked:
                out.append((f"C19/{kind}/write-ignores-timeout", f"write({m.hex()[:40]}) returned although the stream never drained"))
            if not ok and not writer.blocked:
                out.append((f"C19/{kind}/write-times-out", f"write({m.hex()[:40]}) timed out on a stream that drains at once"))
            written.append((m, ok))
            data = b"".join(b for _, b in writer.log[n0:])
            if not wblock and data != hexlify(m) + b"\n":
                out.append((f"C19/{kind}/write-framing", f"write({m.hex()}) put {data!r} on the wire"))
        writer.blocked = False
        if wblock and any(ok for _, ok in written):
            # closing the transport while the peer is still catching up: lines that write() accepted are not thrown away
            writer.slow_close = 3.0
            try:
                await tr.close()
            except Exception as e:  # noqa: BLE001
                out.append((f"C19/{kind}/close-raises", f"{type(e).__name__}: {e}"))
            if writer.aborted:
                out.append((f"C19/{kind}/write-framing/accepted-lines-discarded-at-close", f"writes {[(m.hex()[:16], ok) for m, ok in written]}: close() aborted the connection "
                            "while accepted lines were still waiting to be sent"))
        if wblock:
            stream = b"".join(b for _, b in writer.log[n_start:])
            lines = stream.split(b"\n")
            tail = lines.pop()
            k = 0
            for ln in lines:
                while k < len(written) and hexlify(written[k][0]) != ln:
                    if written[k][1]:
                        break  # a successfully written message may not be skipped
                    k += 1
                if k >= len(written) or hexlify(written[k][0]) != ln:
                    out.append((f"C19/{kind}/write-framing/peer-reads-line-never-sent", f"writes {[(m.hex()[:16], ok) for m, ok in written]} (blocked {wblock}): "
                                f"peer reads line {ln[:60]!r} ({len(ln)} chars)"))
                    break
                k += 1
            else:
                if any(ok for _, ok in written[k:]):
                    out.append((f"C19/{kind}/write-framing/message-missing", f"writes {[(m.hex()[:16], ok) for m, ok in written]}: stream {stream[:120]!r}"))
                elif tail and written and written[-1][1]:
                    out.append((f"C19/{kind}/write-framing/unterminated-line", f"stream ends with {tail[:60]!r} after a successful write"))

    status, val, _ = run_virtual(run, max_virtual=1e6, cpu_budget=5.0)
    if status == "exc":
        return [(f"C19/{kind}/harness-exc", f"{type(val).__name__}: {val}")]
    if status != "ok":
        out.append((f"C19/{kind}/read-blocks", f"read program {status}; got {len(got)} results"))
    for i, (e, g) in enumerate(zip(expected, got)):
        if e[0] != g[0] or (e[0] != "timeout" and e[1] != g[1]):
            what = f"{e[0]}->{g[0]}"
            out.append((f"C19/{kind}/read-sequence/{what}",
                        f"read #{i}: expected {e[0]} {_h(e[1])} got {g[0]} {_h(g[1])}"))
            break
        if abs(e[2] - g[2]) > 1e-3:
            out.append((f"C19/{kind}/read-timing", f"read #{i} ({e[0]}): expected at t={e[2]} got t={g[2]}"))
            break
    if len(got) < len(expected) and not out:
        out.append((f"C19/{kind}/read-sequence/short", f"only {len(got)} of {len(expected)} reads completed"))
    return out


def _h(x: Any) -> str:
    return x.hex()[:80] if isinstance(x, (bytes, bytearray)) else str(x)[:120]


def _check_server(case: dict[str, Any]) -> list[tuple[str, str]]:
    from gallia.services.uds.server import TCPUDSServerTransport
    from gallia.transports import TargetURI

    out: list[tuple[str, str]] = []
    arr, t_eof, _ = _arrivals(case)
    msgs = case["msgs"]
    expected_lines = []
    for i, m in enumerate(msgs):
        r = f_reply(m, i)
        if r is not None:
            expected_lines.append(hexlify(r) + b"\n")
    seen: list[bytes] = []
    state: dict[str, Any] = {}

    class T(TCPUDSServerTransport):
        async def handle_request(self, request_pdu: bytes):  # type: ignore[override]
            i = len(seen)
            seen.append(request_pdu)
            # the ECU takes its time, and not the same time for every request: replies still leave in request order
            await asyncio.sleep(0.013 * (3 - request_pdu[0] % 4))
            return f_reply(request_pdu, i), 0.0

    async def run() -> None:
        loop = asyncio.get_event_loop()
        reader = asyncio.StreamReader(limit=2**16)
        writer = MemWriter()
        srv = T(None, TargetURI("tcp-lines://127.0.0.1:1"))  # type: ignore[arg-type]
        task = loop.create_task(srv.handle_client(reader, writer))  # type: ignore[arg-type]
        if case["eof_gap"] == 0:
            # the client half-closes right behind its last request: end-of-stream arrives in the same instant as the last segment
            _schedule(loop, reader, arr, arr[-1][0])
            await asyncio.sleep(arr[-1][0] + 0.25 + 0.04 * len(msgs))
            state["alive_before_eof"] = True
            state["wire_before_eof"] = writer.data()
        else:
            _schedule(loop, reader, arr, None)
            # just before EOF the loop must still be running and all requests answered
            await asyncio.sleep(arr[-1][0] + 0.25 + 0.04 * len(msgs))
            state["alive_before_eof"] = not task.done()
            state["wire_before_eof"] = writer.data()
            reader.feed_eof()
        try:
            await asyncio.wait_for(task, 5)
            state["ended"] = True
        except TimeoutError:
            state["ended"] = False
        except Exception as e:  # noqa: BLE001
            state["ended"] = True
            state["end_exc"] = repr(e)

    status, val, _ = run_virtual(run, max_virtual=1e6, cpu_budget=5.0)
    if status != "ok":
        return [("C19/server/harness", f"{status} {val!r}")]
    if seen != msgs:
        i = next((j for j, (a, b) in enumerate(zip(seen, msgs)) if a != b), min(len(seen), len(msgs)))
        out.append(("C19/server/request-sequence", f"server saw {len(seen)} requests, sent {len(msgs)}; first difference at #{i}: "
                    f"{_h(seen[i]) if i < len(seen) else None} vs {_h(msgs[i]) if i < len(msgs) else None}"))
    if not state.get("alive_before_eof"):
        out.append(("C19/server/loop-ended-before-eof", "handle_client returned before the client closed the stream"))
    if state.get("wire_before_eof") != b"".join(expected_lines):
        out.append(("C19/server/reply-lines", f"reply stream {state.get('wire_before_eof')!r:.200} != expected {b''.join(expected_lines)!r:.200}"))
    if not state.get("ended"):
        out.append(("C19/server/no-exit-on-eof", "handle_client still running 5 s after EOF"))
    return out


def _check_server_multi(case: dict[str, Any]) -> list[tuple[str, str]]:
    """Two testers connected to one server object at the same time, their requests interleaved: every connection gets exactly the
    replies to its own requests, in order."""
    from gallia.services.uds.server import TCPUDSServerTransport
    from gallia.transports import TargetURI

    msgs = case["msgs"]
    seen: list[bytes] = []

    def reply(req: bytes) -> bytes | None:
        return None if req[0] % 5 == 4 else bytes(reversed(req)) + b"\x00"

    class T(TCPUDSServerTransport):
        async def handle_request(self, request_pdu: bytes):  # type: ignore[override]
            seen.append(request_pdu)
            return reply(request_pdu), 0.0

    writers: list[Any] = [MemWriter(), MemWriter()]
    stuck = bool(case.get("stuck_peer"))
    if stuck:
        # the tester on connection 0 sends its requests and does not read the replies for a long time (its connection is above the
        # high-water mark: drain() does not return); the tester on connection 1 is served all the same
        writers[0] = BPWriter()
        writers[0].blocked = True
    state: dict[str, Any] = {}

    async def run() -> None:
        loop = asyncio.get_event_loop()
        srv = T(None, TargetURI("tcp-lines://127.0.0.1:1"))  # type: ignore[arg-type]
        readers = [asyncio.StreamReader(limit=2**16), asyncio.StreamReader(limit=2**16)]
        tasks = [loop.create_task(srv.handle_client(readers[0], writers[0]))]  # type: ignore[arg-type]
        await asyncio.sleep(0.5)
        tasks.append(loop.create_task(srv.handle_client(readers[1], writers[1])))  # type: ignore[arg-type]
        await asyncio.sleep(0.5)
        for i, m in enumerate(msgs):
            readers[i % 2].feed_data(hexlify(m) + b"\n")
            await asyncio.sleep(case["gaps"][i % len(case["gaps"])] if case["gaps"] else 1)
        await asyncio.sleep(0.5)
        state["wire"] = [w.data() for w in writers]
        for r in readers:
            r.feed_eof()
        try:
            await asyncio.wait_for(asyncio.gather(*(tasks[1:] if stuck else tasks), return_exceptions=True), 5)
        except TimeoutError:
            state["hung"] = True
        for t in tasks:
            t.cancel()

    status, val, _ = run_virtual(run, max_virtual=1e6, cpu_budget=5.0)
    if status != "ok":
        return [("C19/server/harness", f"{status} {val!r}")]
    out: list[tuple[str, str]] = []
    for c in ((1,) if stuck else (0, 1)):
        own = [m for i, m in enumerate(msgs) if i % 2 == c]
        exp = b"".join(hexlify(r) + b"\n" for r in (reply(m) for m in own) if r is not None)
        if state["wire"][c] != exp:
            out.append(("C19/server/two-connections/reply-on-wrong-connection", f"connection {c} sent {[m.hex()[:12] for m in own][:6]} and received {state['wire'][c][:80]!r}, expected {exp[:80]!r}"))
            break
    if not stuck and sorted(seen) != sorted(msgs):
        out.append(("C19/server/two-connections/request-sequence", f"server saw {len(seen)} of {len(msgs)} requests"))
    return out


def check_real(case: dict[str, Any]) -> list[tuple[str, str]]:
    """The virtual ECU started the way a user starts it (`gallia script vecu rng <uri>` in a child process, i.e. through the
    transports' run() methods and real sockets) and gallia's own line transport as client: requests of 1..4095 bytes, singly and
    as a burst, each answered by exactly one line that belongs to it."""
    import shutil
    import socket
    import subprocess
    import sys
    import tempfile
    import time
    from pathlib import Path

    d = Path(tempfile.mkdtemp(prefix="vf-c19real."))
    out: list[tuple[str, str]] = []
    scheme = case["scheme"]
    if scheme == "unix-lines":
        uri = server_uri = f"unix-lines://{d}/ecu.sock"
    else:
        sk = socket.socket()
        sk.bind(("127.0.0.1", 0))
        port = sk.getsockname()[1]
        sk.close()
        uri, server_uri = f"tcp-lines://127.0.0.1:{port}", f"tcp://127.0.0.1:{port}"  # the server side names the scheme "tcp"
    env = {k: v for k, v in os.environ.items() if not k.startswith("GALLIA_") or k == "GALLIA_VERIF"}
    server = subprocess.Popen([sys.executable, "-c", "import sys; from gallia.cli.gallia import main; sys.argv[0] = 'gallia'; sys.exit(main())",
                               "script", "vecu", "rng", server_uri, "--seed", str(case["seed"])], cwd=d, env=env, stdout=subprocess.DEVNULL, stderr=subprocess.DEVNULL)
    try:
        async def go() -> None:
            from gallia.transports import TCPLinesTransport
            from gallia.transports.unix import UnixLinesTransport

            cls = UnixLinesTransport if scheme == "unix-lines" else TCPLinesTransport
            tr = None
            for _ in range(200):
                try:
                    tr = await cls.connect(uri, timeout=1)
                    break
                except (ConnectionError, FileNotFoundError, OSError):
                    await asyncio.sleep(0.05)
            if tr is None:
                out.append(("C19/real/server-not-reachable", f"{uri}: no connection within 10 s"))
                return

            def belongs(req: bytes, rep: bytes) -> bool:
                return len(rep) >= 1 and ((rep[0] == 0x7F and len(rep) == 3 and rep[1] == req[0]) or rep[0] == (req[0] + 0x40) & 0xFF)

            for n in case["sizes"]:
                req = bytes([0x22]) + bytes((i * 7 + n) & 0xFF for i in range(n - 1))
                await tr.write(req, timeout=5)
                try:
                    rep = await tr.read(timeout=5)
                except Exception as e:  # noqa: BLE001
                    out.append((f"C19/real/{scheme}/no-reply/{'<=2048' if n <= 2048 else '>2048'}", f"request of {n} bytes: {type(e).__name__}: {e}"))
                    return
                if not belongs(req, rep):
                    out.append((f"C19/real/{scheme}/foreign-reply", f"request of {n} bytes starting {req[:4].hex()}: reply {rep.hex()[:40]}"))
                    return
            # a request the ECU does not answer (a change to the default session with the suppress bit: offered by every model)
            # produces no line at all - in particular not an empty one, which the client could not tell from end-of-stream; the
            # next message read is the reply to the next request
            await tr.write(b"\x10\x81", timeout=5)
            await tr.write(b"\x10\x01", timeout=5)
            try:
                rep = await tr.read(timeout=5)
            except Exception as e:  # noqa: BLE001
                rep = f"{type(e).__name__}: {e}".encode()
            if rep[:2] != b"\x50\x01":
                out.append((f"C19/real/{scheme}/line-for-an-unanswered-request", f"10 81 then 10 01: first message read is {rep!r}"))
                return
            # somebody else connects to the virtual ECU and hangs up without a word (a port scan, a health check): this tester's
            # conversation goes on
            try:
                if scheme == "unix-lines":
                    _, pw = await asyncio.open_unix_connection(str(d / "ecu.sock"))
                else:
                    _, pw = await asyncio.open_connection("127.0.0.1", port)
                pw.close()
                await pw.wait_closed()
                await asyncio.sleep(0.3)
            except OSError:
                pass
            burst = [bytes([sid, 0x01 + i]) for i, sid in enumerate(case["burst"])]
            for b in burst:
                await tr.write(b, timeout=5)
            for b in burst:
                try:
                    rep = await tr.read(timeout=5)
                except Exception as e:  # noqa: BLE001
                    out.append((f"C19/real/{scheme}/burst/no-reply", f"{len(burst)} requests sent back to back; reply to {b.hex()}: {type(e).__name__}: {e}"))
                    return
                if not belongs(b, rep):
                    out.append((f"C19/real/{scheme}/burst/out-of-order", f"reply {rep.hex()[:20]} where the one for {b.hex()} was due"))
                    return
            await tr.close()

        asyncio.run(asyncio.wait_for(go(), 120))
    except Exception as e:  # noqa: BLE001
        out.append((f"C19/real/harness/{type(e).__name__}", str(e)[:200]))
    finally:
        server.terminate()
        try:
            server.wait(10)
        except Exception:  # noqa: BLE001
            server.kill()
            server.wait()
        shutil.rmtree(d, ignore_errors=True)
    return out


def nontrivial(case: dict[str, Any]) -> bool:
    if case["kind"] == "real":
        return True
    if case["kind"] == "server2":
        return len(case["msgs"]) >= 2
    ends = set()
    o = 0
    for m in case["msgs"]:
        o += 2 * len(m) + 1
        ends.add(o)
    cuts = case["cuts"]
    inside = any(c not in ends for c in cuts)
    bounds = [0] + list(cuts) + [o]
    coalesced = any(sum(1 for e in ends if a < e <= b) >= 2 for a, b in zip(bounds, bounds[1:]))
    timeout_inside = False
    if case["kind"] not in ("server", "server2"):
        timeout_inside = any(e[0] == "timeout" for e in _model_client(case)[: len(case["reads"])]) and inside
    return inside or coalesced or timeout_inside


def classify(case: dict[str, Any]) -> str:
    if case["kind"] == "real":
        return f"real-sockets/{case['scheme']}"
    if case["kind"] == "server2":
        return "server/two-connections"
    ends = set()
    o = 0
    for m in case["msgs"]:
        o += 2 * len(m) + 1
        ends.add(o)
    inside = any(c not in ends for c in case["cuts"])
    tmo = case["kind"] not in ("server", "server2") and any(e[0] == "timeout" for e in _model_client(case)[: len(case["reads"])])
    return f"{case['kind']}/" + ("split-inside-line" if inside else "line-aligned") + ("+timeout" if tmo else "")


def shards(tier: str) -> list[dict[str, Any]]:
    if tier == "quick":
        return [{"what": "gen", "n": 1000} for _ in range(12)] + [{"what": "splits", "n": 12}, {"what": "real", "n": 1}]
    return [{"what": "gen", "n": 12000} for _ in range(15)] + [{"what": "splits", "n": 400}, {"what": "real", "n": 6}]


def run_shard(spec: dict[str, Any], seed: int) -> Collector:
    col = Collector()

    def body(case: dict[str, Any]) -> None:
        res = check(case)
        col.case((case["kind"], [m.hex() for m in case["msgs"]], case["cuts"], case["gaps"], case["reads"]),
                 nontrivial(case), cls=classify(case),
                 sample={**case, "msgs": [m.hex()[:40] for m in case["msgs"][:6]], "cuts": case["cuts"][:12]})
        for b, m in res:
            col.violation(b, case, m)

    if spec["what"] == "real":
        for i in range(spec["n"]):
            for scheme in ("unix-lines", "tcp-lines"):
                k = seed * 13 + i * 7
                case = {"kind": "real", "scheme": scheme, "seed": 3 + (k % 5), "sizes": [1, 2, 2048, 2049, 4095, 3 + (k * 37) % 4000, 1025 + (k * 101) % 3000],
                        "burst": [0x3E, 0x22, 0x10, 0x19, 0x27, 0x31, 0x85, 0x3E, 0x11, 0x14] * 3}
                res = check(case)
                col.case(("real", scheme, case["seed"], tuple(case["sizes"])), True, cls=classify(case), sample=case)
                for b, m in res:
                    col.violation(b, case, m)
        return col
    if spec["what"] == "splits":
        # every single split point of short streams, exhaustively, for all three kinds
        def body2(base: dict[str, Any]) -> None:
            stream_len = sum(2 * len(m) + 1 for m in base["msgs"])
            for c in range(1, stream_len):
                for gap in (0, 1):
                    case = dict(base, cuts=[c], gaps=[0, gap])
                    body(case)

        small = st.fixed_dictionaries({
            "kind": st.sampled_from(["tcp-lines", "unix-lines", "server"]),
            "msgs": st.lists(st.binary(min_size=1, max_size=6), min_size=1, max_size=4),
            "reads": st.lists(st.sampled_from([0.3701, 1.3701, None]), max_size=3),
            "eof_gap": st.sampled_from([0, 1]),
        })
        run_given(small, body2, spec["n"], seed)
        col.exhaustive_parts.append("every single split point (with and without inter-segment delay) of each generated short stream")
        return col
    run_given(case_s(), body, spec["n"], seed)
    return col


def replay(witness: Any) -> list[tuple[str, str]]:
    return check(unjson(witness))


def shrink(bucket: str, witness: Any, seed: int) -> Any:
    kind = unjson(witness)["kind"]
    if kind == "real":
        return None  # the real-socket cases are a handful of fixed scripts: nothing to shrink
    return shrink_bucket(case_s(kinds=(kind,)), lambda c: {b for b, _ in check(c)}, bucket, seed, max_examples=1500)
