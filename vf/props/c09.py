"""C09 - The session scan reports exactly the sessions reachable within the depth limit."""

from __future__ import annotations

from typing import Any

from hypothesis import strategies as st

from vf import vecu
from vf.core import Collector, run_given, shrink_bucket, unjson
from vf.scan import run_scanner

PROPERTY = "C09"
LEVEL = "exploration"
RULE = (
    "ECU = reference session-graph ECU: arbitrary directed graph over session ids (random density, cycles, chains longer than depth, "
    "unreachable components, sessions reachable only through non-default ones; every session can return to the default session, as ISO "
    "14229-1 requires and the scanner's stack recovery presupposes), non-edges answered with subFunctionNotSupported or, per variant, "
    "subFunctionNotSupportedInActiveSession / conditionsNotCorrect, selected edges silent (timeout); a second family is the real "
    "RandomUDSServer for generated seeds/parameters. x depth 1..5 x skip lists (with and without the default session; isolated ids and "
    "adjacent runs) x thorough. The real SessionsScanner.run() is executed in-process over an in-memory transport under virtual time. "
    "Oracle: scanner.result equals the set of sessions s for which a walk 1 -> .. -> s of 1..depth edges exists in the graph without "
    "skipped nodes (BFS); every recorded (destination, steps) is a walk of the graph from the default session ending with an edge into "
    "destination; no DiagnosticSessionControl request for a skipped session reaches the ECU; the scan terminates within a request budget. A third of the cases give the scanner a database that already holds the transitions of an earlier, deeper scan; "
    "some skip lists contain the default session (never probed, still the start of every walk). "
    "Some graph ECUs refuse every transition once with busyRepeatRequest (scan with one retry); some cases put latency on the wire so that the tester-present worker fires, also in sessions without TesterPresent. "
    "Non-trivial: the graph has a cycle or a session at distance >= 2 and the expected set differs between depth and depth-1. Distinct by case."
)
ASSUMPTIONS = [
    "the default session is enterable from every session (ISO 14229-1; without it the scanner exits by design)",
    "an edge that times out is not an edge for the oracle (the ECU neither answers nor changes session)",
    "in-memory transport + virtual time stand in for network and clock; inactivity resets of the virtual ECU are not simulated",
]


def make_graph_server(graph: dict[int, list[int]], silent: list[list[int]], nrc_mode: str, log: list[tuple[int, bytes]], reset_answer: str = "positive",
                      tp_unsupported: frozenset[int] = frozenset(), busy_once: bool = False) -> Any:
    from gallia.services.uds.core import service
    from gallia.services.uds.core.constants import UDSErrorCodes, UDSIsoServices
    from gallia.services.uds.server import UDSServer

    edges = {int(k): set(v) for k, v in graph.items()}
    silent_set = {(a, b) for a, b in silent}
    all_targets = set().union(*edges.values()) if edges else set()
    was_busy: set[tuple[int, int]] = set()

    class GraphServer(UDSServer):
        @property
        def supported_services(self) -> dict[int, dict[UDSIsoServices, list[int] | None]]:
            return {}

        async def respond_after_default(self, request: Any) -> Any:
            return None

        async def respond(self, request: Any) -> Any:
            pdu = request.pdu
            cur = self.state.session
            log.append((cur, pdu))
            sid = pdu[0]
            if sid == 0x10 and len(pdu) == 2:
                tgt = pdu[1] & 0x7F
                if tgt in edges.get(cur, set()):
                    if (cur, tgt) in silent_set:
                        return None
                    if busy_once and (cur, tgt) not in was_busy and tgt != 1:
                        # still finishing the previous session change: busyRepeatRequest once, the repetition is accepted
                        was_busy.add((cur, tgt))
                        return service.NegativeResponse(0x10, UDSErrorCodes.busyRepeatRequest)
                    self.state.reset()
                    self.state.session = tgt
                    return None if pdu[1] & 0x80 else service.DiagnosticSessionControlResponse(tgt)
                if nrc_mode == "inactive" and tgt in all_targets:
                    return service.NegativeResponse(0x10, UDSErrorCodes.subFunctionNotSupportedInActiveSession)
                if nrc_mode == "cnc" and tgt in all_targets and tgt % 3 == 0:
                    return service.NegativeResponse(0x10, UDSErrorCodes.conditionsNotCorrect)
                return service.NegativeResponse(0x10, UDSErrorCodes.subFunctionNotSupported)
            if sid == 0x11 and len(pdu) == 2:
                # ECUReset: the ECU reboots into the default session - and answers, stays silent, or refuses
                if reset_answer == "nrc":
                    return service.NegativeResponse(0x11, UDSErrorCodes.conditionsNotCorrect)
                self.state.reset()
                return None if (reset_answer == "silent" or pdu[1] & 0x80) else service.ECUResetResponse(pdu[1] & 0x7F)
            if sid == 0x3E and len(pdu) == 2:
                if cur in tp_unsupported:
                    # TesterPresent is not available in this session: a negative response is never suppressed
                    return service.NegativeResponse(0x3E, UDSErrorCodes.serviceNotSupportedInActiveSession)
                return None if pdu[1] & 0x80 else service.TesterPresentResponse()
            if pdu == b"\x22\xf1\x86":
                return service.ReadDataByIdentifierResponse(0xF186, bytes([cur]))
            return service.NegativeResponse(sid, UDSErrorCodes.serviceNotSupported)

    return GraphServer()


def expected_sessions(edges: dict[int, set[int]], silent: set[tuple[int, int]], depth: int, skip: set[int]) -> set[int]:
    def succ(a: int) -> set[int]:
        return {b for b in edges.get(a, set()) if (a, b) not in silent and b not in skip}

    dist = {1: 0}
    frontier = [1]
    while frontier:
        nxt = []
        for a in frontier:
            for b in succ(a):
                if b not in dist:
                    dist[b] = dist[a] + 1
                    nxt.append(b)
        frontier = nxt
    out: set[int] = set()
    for t, d in dist.items():
        if d <= depth - 1:
            out |= succ(t)
    return out


@st.composite
def graph_case(draw) -> dict[str, Any]:
    n = draw(st.integers(1, 9))
    pool = [1, 2, 3, 4, 0x10, 0x40, 0x41, 0x42, 0x60, 0x7D, 0x7E, 0x7F]
    nodes = [1] + draw(st.lists(st.sampled_from(pool[1:]), unique=True, min_size=n - 1, max_size=n - 1))
    shape = draw(st.sampled_from(["random", "random", "chain", "chain", "dense", "sparse-with-island"]))
    edges: dict[int, set[int]] = {a: {1} for a in nodes}  # ISO: the default session is always reachable
    if shape == "chain":
        for a, b in zip(nodes, nodes[1:]):
            edges[a].add(b)
        if draw(st.booleans()) and len(nodes) > 2:
            edges[nodes[-1]].add(nodes[1])  # cycle that does not pass through the default session
    else:
        p = {"random": 0.3, "dense": 0.8, "sparse-with-island": 0.15}[shape]
        for a in nodes:
            for b in nodes:
                if draw(st.floats(0, 1)) < p:
                    edges[a].add(b)
    all_edges = sorted((a, b) for a in edges for b in edges[a] if b != 1)
    silent = draw(st.lists(st.sampled_from(all_edges), unique=True, max_size=2)) if all_edges else []
    skip_pool = [x for x in pool if x != 1]
    skip_kind = draw(st.sampled_from(["none", "none", "isolated", "run", "run", "nodes", "default"]))
    skip_text: list[str] | None = None
    if skip_kind == "none":
        skip: list[int] = []
    elif skip_kind == "isolated":
        skip = draw(st.lists(st.sampled_from(skip_pool), unique=True, max_size=3))
    elif skip_kind == "run":
        start = draw(st.sampled_from([2, 3, 0x40, 0x41, 0x7D]))
        skip = list(range(start, min(0x80, start + draw(st.integers(2, 4)))))
        if draw(st.booleans()) and len(skip) >= 3:
            # the same set written as range expressions, one nested inside the other
            skip_text = [f"{skip[0]:#x}-{skip[-1]:#x}", f"{skip[1]:#x}-{skip[-2]:#x}"]
    elif skip_kind == "default":
        # the default session itself is on the list: it is not probed as a candidate, but it remains the start of every walk (the
        # "never requested" clause is not applied to it - every recovery has to go through it)
        skip = [1] + draw(st.lists(st.sampled_from(skip_pool), unique=True, max_size=2))
        if draw(st.booleans()):
            skip_text = ["0x1-0x1"] + [f"{x:#x}" for x in skip[1:]]
    else:
        skip = draw(st.lists(st.sampled_from([x for x in nodes if x != 1] or [2]), unique=True, max_size=2))
    depth = draw(st.sampled_from([1, 2, 2, 3, 3, 4, 5]))
    thorough = draw(st.booleans())
    # a thorough scan enumerates every walk: keep the amount of work (walks x 127 probes) inside what the request budget allows,
    # so that an exhausted budget always means "does not terminate"
    maxdeg = max(len(v) for v in edges.values())
    while thorough and depth > 1 and maxdeg ** (depth - 1) * 127 * (depth + 1) > 250000:
        depth -= 1
    return {"kind": "graph", "graph": {str(a): sorted(b) for a, b in edges.items()}, "silent": [list(e) for e in silent],
            "nrc_mode": draw(st.sampled_from(["plain", "plain", "inactive", "cnc"])), "depth": depth,
            "skip": sorted(skip), "thorough": thorough, "skip_text": skip_text,
            # the database already holds the session transitions an earlier, deeper scan of this ECU has found
            "earlier_scan": draw(st.integers(0, 2)) == 0,
            # requests take time on the wire, so the cyclic tester-present worker (every 0.5 s) fires during the scan - also in
            # sessions that do not offer TesterPresent and answer it with a negative response
            "latency": draw(st.sampled_from([None, None, 0.0201, 0.0501])),
            # every transition is refused once with busyRepeatRequest (the scan runs with one retry): nothing is lost
            "busy_once": draw(st.integers(0, 3)) == 0,
            "tp_unsupported": draw(st.lists(st.sampled_from(nodes), unique=True, max_size=3)) if draw(st.booleans()) else []}


@st.composite
def chain_case(draw) -> dict[str, Any]:
    """Sessions that are only reachable through a chain of non-default sessions, on an ECU that names sessions it knows but
    does not offer here with subFunctionNotSupportedInActiveSession / conditionsNotCorrect (the scanner meets them early through
    a negative response and later through a deeper stack)."""
    pool = [2, 3, 4, 0x10, 0x40, 0x41, 0x60, 0x7E]
    k = draw(st.integers(2, 6))
    chain = [1] + draw(st.lists(st.sampled_from(pool), unique=True, min_size=k, max_size=k))
    edges: dict[int, set[int]] = {a: {1} for a in chain}
    for a, b in zip(chain, chain[1:]):
        edges[a].add(b)
    for _ in range(draw(st.integers(0, 2))):
        a, b = draw(st.sampled_from(chain)), draw(st.sampled_from(chain))
        edges[a].add(b)
    return {"kind": "graph", "graph": {str(a): sorted(b) for a, b in edges.items()}, "silent": [],
            "nrc_mode": draw(st.sampled_from(["inactive", "inactive", "cnc", "plain"])), "depth": draw(st.integers(2, 5)),
            "skip": [], "thorough": draw(st.sampled_from([False, False, True])), "reset": draw(reset_s) if k <= 3 else None}


# --reset LEVEL: the scanner resets the ECU before every probe; the ECU answers the reset, reboots silently, or refuses it
reset_s = st.one_of(st.none(), st.none(), st.tuples(st.sampled_from([1, 2]), st.sampled_from(["positive", "silent", "silent", "nrc"])).map(list))


@st.composite
def detour_case(draw) -> dict[str, Any]:
    """A session that is reachable on two ways of different length, with a tail behind it that is inside the depth limit only via
    the short way: the order in which the scan enumerates the two ways must not matter. Session numbers are drawn freely, so the
    long way starts with the higher as well as with the lower identifier."""
    pool = [2, 3, 4, 5, 0x10, 0x40, 0x41, 0x42, 0x60, 0x7D, 0x7E, 0x7F]
    s_len = draw(st.integers(1, 2))          # edges on the short way 1 -> .. -> Y
    l_len = s_len + draw(st.integers(1, 2))  # edges on the long way
    t_len = draw(st.integers(1, 3))          # edges of the tail behind Y
    n = (s_len - 1) + (l_len - 1) + 1 + t_len
    ids = draw(st.lists(st.sampled_from(pool), unique=True, min_size=n, max_size=n))
    short, long_, y, tail = ids[: s_len - 1], ids[s_len - 1: s_len - 1 + l_len - 1], ids[s_len + l_len - 2], ids[s_len + l_len - 1:]
    edges: dict[int, set[int]] = {a: {1} for a in [1] + ids}
    for path in ([1] + short + [y], [1] + long_ + [y], [y] + tail):
        for a, b in zip(path, path[1:]):
            edges[a].add(b)
    depth = s_len + t_len + draw(st.sampled_from([0, 0, 0, 1]))
    return {"kind": "graph", "graph": {str(a): sorted(b) for a, b in edges.items()}, "silent": [], "nrc_mode": draw(st.sampled_from(["plain", "inactive"])),
            "depth": min(depth, 5), "skip": [], "thorough": draw(st.sampled_from([False, False, False, True])), "reset": draw(reset_s)}


@st.composite
def random_server_case(draw) -> dict[str, Any]:
    return {"kind": "random", "seed": draw(st.integers(0, 10000)),
            "params": draw(st.sampled_from([{}, {"p_session": 0.2}, {"p_session": 0.5, "optional_sessions": [2, 3, 4, 0x40, 0x41]},
                                            {"p_session": 1.0, "optional_sessions": [2, 3, 4, 5]}])),
            "depth": draw(st.integers(1, 4)), "skip": [], "thorough": draw(st.booleans())}


def run_case(case: dict[str, Any]) -> dict[str, Any]:
    from gallia.commands.scan.uds.sessions import SessionsScanner, SessionsScannerConfig

    log: list[tuple[int, bytes]] = []
    if case["kind"] == "graph":
        edges = {int(k): set(v) for k, v in case["graph"].items()}
        silent = {(a, b) for a, b in case["silent"]}
        server = make_graph_server(case["graph"], case["silent"], case["nrc_mode"], log, (case.get("reset") or [0, "positive"])[1],
                                   frozenset(case.get("tp_unsupported") or []), bool(case.get("busy_once")))
    else:
        server = vecu.make_server(case["seed"], case["params"], [])
        server.randomize()
        model = vecu.model_dict(server)
        edges = {s: set(model[s].get(0x10) or []) for s in model}
        # a target that is not a session of the model cannot be entered (sub-function check happens in the target's table of the CURRENT session)
        edges = {s: {t for t in ts} for s, ts in edges.items()}
        silent = set()
    cfg = SessionsScannerConfig(target="tcp-lines://127.0.0.1:1", depth=case["depth"], skip=list(case.get("skip_text") or case["skip"]), thorough=case["thorough"],
                                dumpcap=False, timeout=0.5, max_retries=1 if case.get("busy_once") else 0, properties=False, reset=(case.get("reset") or [None])[0])
    nodes = len(edges)
    budget = (2000 + (case["depth"] + 1) * (nodes ** (case["depth"] if case["thorough"] else 1) + nodes) * 140 * 4) * (4 + case["depth"] if case.get("reset") else 1)
    stored = None
    if case.get("earlier_scan"):
        stored = {}
        frontier = [[1]]
        while frontier:
            nxt = []
            for walk in frontier:
                for b in sorted(edges.get(walk[-1], set())):
                    if b not in stored and b != 1 and (walk[-1], b) not in silent:
                        stored[b] = list(walk)
                        nxt.append(walk + [b])
            frontier = nxt
    r = run_scanner(SessionsScanner, cfg, server, budget=min(budget, 600000) * (3 if case.get("latency") else 1), db_stored=stored, latency=case.get("latency"))
    r["edges"] = edges
    r["silent"] = silent
    return r


def check(case: dict[str, Any]) -> list[tuple[str, str]]:
    r = run_case(case)
    out: list[tuple[str, str]] = []
    mode = ("thorough" if case["thorough"] else "normal")
    ctx = f"{case['kind']} depth={case['depth']} skip={case['skip']} thorough={case['thorough']} " + \
        (f"graph={case['graph']} silent={case['silent']} nrc={case['nrc_mode']}" if case["kind"] == "graph" else f"seed={case['seed']} params={case['params']}")
    if r["status"] != "ok":
        return [(f"C09/run-{r['status']}", f"{ctx}: {r['val']!r} after {len(r['wire'])} requests")]
    rc = r["box"].get("rc")
    if isinstance(rc, str) and "budget exhausted" in rc:
        return [(f"C09/does-not-terminate/{mode}", f"{ctx}: more than {len(r['wire'])} requests")]
    if rc != 0:
        return [(f"C09/scanner-failed/{str(rc)[:40]}", f"{ctx}: run() -> {rc}")]
    scanner = r["box"]["scanner"]
    edges, silent = r["edges"], r["silent"]
    skip = set(case["skip"])
    exp = expected_sessions(edges, silent, case["depth"], skip)
    got = list(scanner.result)
    if sorted(set(got)) != got:
        out.append(("C09/result-not-sorted-unique", f"{ctx}: result {got}"))
    if set(got) != exp:
        missing, extra = sorted(exp - set(got)), sorted(set(got) - exp)
        kind = "missing" if missing and not extra else "extra" if extra and not missing else "both"
        out.append((f"C09/wrong-sessions/{kind}/{mode}", f"{ctx}: reported {[hex(x) for x in got]}, reachable within depth: {[hex(x) for x in sorted(exp)]} (missing {[hex(x) for x in missing]}, extra {[hex(x) for x in extra]})"))
    # skipped sessions are never requested
    for cur, pdu in ((s, p) for s, p, _ in r["wire"]):
        if pdu[0] == 0x10 and len(pdu) == 2 and (pdu[1] & 0x7F) in skip - {1}:
            out.append(("C09/skipped-session-requested", f"{ctx}: ECU received {pdu.hex()} in session {cur:#x}"))
            break
    # recorded transitions are real walks
    db = r["box"].get("db")
    if db is not None:
        for dest, steps in db.transitions:
            if dest not in exp:
                continue  # negative results ("identified but could not be activated") are recorded too
            walk = list(steps) + [dest]
            ok = walk[0] == 1 and all((b in edges.get(a, set()) and (a, b) not in silent) or (a == b == 1 and i == 0) for i, (a, b) in enumerate(zip(walk, walk[1:])))
            # the stack starts with the default session itself, entered from the default state
            if not ok:
                out.append(("C09/recorded-steps-not-a-walk", f"{ctx}: destination {dest:#x} via {[hex(x) for x in steps]}"))
                break
    return out


def nontrivial(case: dict[str, Any]) -> bool:
    if case["kind"] != "graph":
        return True
    edges = {int(k): set(v) for k, v in case["graph"].items()}
    silent = {(a, b) for a, b in case["silent"]}
    skip = set(case["skip"])
    return expected_sessions(edges, silent, case["depth"], skip) != expected_sessions(edges, silent, case["depth"] - 1, skip) and case["depth"] >= 2


def shards(tier: str) -> list[dict[str, Any]]:
    n = 30 if tier == "quick" else 1100
    return [{"what": "graph", "n": n} for _ in range(13)] + [{"what": "random", "n": max(6, n // 4)} for _ in range(3)]


def run_shard(spec: dict[str, Any], seed: int) -> Collector:
    col = Collector()

    def body(case: dict[str, Any]) -> None:
        res = check(case)
        col.case(str(case), nontrivial(case), cls=f"{case['kind']}/depth{case['depth']}/" + ("thorough" if case["thorough"] else "normal") + ("/skip" if case["skip"] else "") + ("/earlier-scan-in-db" if case.get("earlier_scan") else "")
                 + (f"/reset-{case['reset'][1]}" if case.get("reset") else ""),
                 sample=case)
        for b, m in res:
            col.violation(b, case, m)

    strat = {"graph": st.one_of(graph_case(), graph_case(), chain_case(), detour_case()), "random": random_server_case()}[spec["what"]]
    run_given(strat, body, spec["n"], seed)
    return col


def replay(witness: Any) -> list[tuple[str, str]]:
    return check(unjson(witness))


def shrink(bucket: str, witness: Any, seed: int) -> Any:
    w = unjson(witness)
    return shrink_bucket(st.one_of(graph_case(), chain_case(), detour_case()) if w["kind"] == "graph" else random_server_case(), lambda c: {b for b, _ in check(c)}, bucket, seed, max_examples=300)
