"""C17 - Log records written by a run are read back exactly, in any navigation mode."""

from __future__ import annotations

import contextlib
import gzip
import io
import logging
import os
import shutil
import sys
import tempfile
import time
from pathlib import Path
from typing import Any

from hypothesis import strategies as st

from vf.core import Collector, run_given, shrink_bucket, unjson

PROPERTY = "C17"
LEVEL = "exploration"
RULE = (
    "A case is (record sequence of length 0..60 (a few up to 300): message = arbitrary Unicode text incl. control characters, "
    "newlines, NUL, %-signs, very long lines; one of the 7 gallia levels; tags absent or a list; optional exception info), file "
    "level DEBUG or TRACE, container in {.zst as produced, .gz, .gz of two members, plain with <prio> prefix, plain without prefix, stdin}, reader mode "
    "in {forward, reverse, offset k, tail n, head n} x priority threshold 0..8, through PenlogReader.records() and through the hr "
    "command (captured stdout). The records are written with add_zst_log_handler / remove_zst_log_handler on a private logger; "
    "ground truth W is what a second handler on the same logger saw at or above the file level. Oracle: forward = W (text, "
    "priority = from_level(level), tags, timestamp to the microsecond); threshold p = [r in W | prio <= p]; offset k = W[k:]; "
    "reverse = W[::-1]; tail n = last n (n >= len gives all); head n = first n of the filtered sequence; len(reader) = |W|; "
    "Container mixprio: every second line without the <prio> prefix. Creation instants are set to the edges of a second by a logging filter. "
    "identical for all containers; hr prints str(record) of exactly those. Burst cases log 1 000 - 100 000 short records back to back. Two-logs cases run an open/log/close program over two log files that are open at the same time, in a child process, and read both back.  Non-trivial: >= 2 records and a non-forward mode or a "
    "threshold that removes something. Distinct by (records, mode, container)."
)
ASSUMPTIONS = [
    "exception info is merged into the message text by Python's QueueHandler before gallia's formatter sees it; the check requires "
    "the message text as prefix and the word 'Traceback' in the stored text",
    "tail with a priority threshold may mean filter(last n) or last n of filter: both accepted; tail -n 0 is not generated",
    "stdin is provided by dup2() of a regular file onto fd 0",
]

LEVELS = [5, 10, 20, 25, 30, 40, 50]  # TRACE DEBUG INFO NOTICE WARNING ERROR CRITICAL
PRIO = {5: 8, 10: 7, 20: 6, 25: 5, 30: 4, 40: 3, 50: 2}

text_s = st.one_of(
    st.text(max_size=40),
    st.text(alphabet=st.characters(blacklist_categories=("Cs",)), max_size=200),
    st.sampled_from(["", " ", "\n", "a\nb", "line1\r\nline2", "\x00", "tab\tx", "100% %s %d %(x)s", "{}", "<3>fake", '"quoted"', "\\n",
                     "\udc80", "lone \ud800 surrogate", "path/\udcff\udcfe.bin",
                     "ünïcödé ✓ 𝄞", "  ", "x" * 5000]),
    st.integers(20000, 100000).map(lambda n: "L" * n),
)
tags_s = st.one_of(st.none(), st.lists(st.sampled_from(["result", "uds", "read", "write", "ANALYZE", "ü"]), max_size=3))
record_s = st.fixed_dictionaries({"msg": text_s, "level": st.sampled_from(LEVELS), "tags": tags_s, "exc": st.integers(0, 9).map(lambda x: x == 0),
                                  "lazy": st.integers(0, 7).map(lambda x: x == 0),
                                  # creation instants at the edges of a second / a minute (the record's own clock reading is replaced)
                                  "at": st.one_of(st.none(), st.none(), st.sampled_from([0.0, 0.000001, 0.9999994, 0.9999996, 0.9999999, 0.999999, 0.5, 59.9999997, 59.9999992]))})


@st.composite
def case_s(draw) -> dict[str, Any]:
    n = draw(st.one_of(st.integers(0, 6), st.integers(0, 60), st.sampled_from([0, 1, 2, 100, 101, 300])))
    recs = draw(st.lists(record_s if n <= 60 else st.fixed_dictionaries({"msg": st.text(max_size=8), "level": st.sampled_from(LEVELS),
                                                                         "tags": st.none(), "exc": st.just(False)}), min_size=n, max_size=n))
    mode = draw(st.sampled_from(["forward", "reverse", "reverse-from", "offset", "tail", "head"]))
    k = draw(st.one_of(st.sampled_from([0, 1, max(0, n - 1), n, n + 1, 100]), st.integers(0, max(1, n + 2))))
    return {"records": recs, "file_level": draw(st.sampled_from([10, 5])), "container": draw(st.sampled_from(["zst", "gz", "plain", "noprio", "stdin", "gz-multi", "mixprio"])),
            "mode": mode, "k": k, "prio": draw(st.integers(0, 8)), "via": draw(st.sampled_from(["reader", "reader", "hr"])),
            "no_final_newline": draw(st.integers(0, 3)) == 0}


class _Tap(logging.Handler):
    def __init__(self) -> None:
        super().__init__(0)
        self.seen: list[dict[str, Any]] = []

    def emit(self, record: logging.LogRecord) -> None:
        self.seen.append({"levelno": record.levelno, "msg": record.getMessage(), "created": record.created,
                          "tags": record.__dict__.get("tags"), "exc": bool(record.exc_info)})


class _Stamp(logging.Filter):
    """Replaces the creation time of the records passing through (before any handler sees them)."""

    created: float | None = None

    def filter(self, record: logging.LogRecord) -> bool:
        if self.created is not None:
            record.created = self.created
            record.msecs = (self.created - int(self.created)) * 1000.0
        return True


_counter = [0]


def write_log(case: dict[str, Any], d: Path) -> tuple[Path, list[dict[str, Any]]]:
    from gallia.log import Loglevel, add_zst_log_handler, get_logger, remove_zst_log_handler

    _counter[0] += 1
    name = f"vfc17.{os.getpid()}.{_counter[0]}"
    lg = get_logger(name)
    lg.setLevel(1)
    lg.propagate = False
    tap = _Tap()
    lg.addHandler(tap)
    stamps = _Stamp()
    lg.addFilter(stamps)
    base = float(int(time.time()) // 60 * 60)
    path = d / "log.json.zst"
    h = add_zst_log_handler(name, path, Loglevel(case["file_level"]))
    try:
        for i_, r in enumerate(case["records"]):
            stamps.created = None if r.get("at") is None else base + 60.0 * i_ + r["at"]
            extra = {"tags": list(r["tags"])} if r["tags"] is not None else None
            if r["exc"]:
                try:
                    raise ValueError("boom ☃")
                except ValueError:
                    lg.log(r["level"], r["msg"], extra=extra, exc_info=True)
            elif r.get("lazy"):
                # lazy %-formatting with a mutable argument that the caller goes on using: the record holds the text as it was when
                # the call was made
                buf = [r["msg"]]
                lg.log(r["level"], "pending: %s", buf, extra=extra)
                buf.append("changed-after-the-call")
                buf[0] = "overwritten"
            else:
                lg.log(r["level"], r["msg"], extra=extra)
    finally:
        remove_zst_log_handler(name, h)
        lg.removeHandler(tap)
        lg.removeFilter(stamps)
    W = [s for s in tap.seen if s["levelno"] >= case["file_level"]]
    return path, W


def make_container(kind: str, zst: Path, d: Path, no_final_newline: bool = False) -> Path:
    import zstandard

    if kind == "zst":
        return zst
    raw = zstandard.ZstdDecompressor().stream_reader(zst.open("rb")).read()
    if no_final_newline and raw.endswith(b"\n"):
        raw = raw[:-1]  # a log that went through another tool (grep, head, an editor): the last record is not terminated
    if kind == "gz":
        p = d / "log.json.gz"
        with gzip.open(p, "wb") as f:
            f.write(raw)
        return p
    if kind == "gz-multi":
        # two gzip members one after the other (cat a.gz b.gz, a rotated log): one log
        p = d / "log.json.gz"
        cut = raw.find(b"\n", len(raw) // 2) + 1
        p.write_bytes(gzip.compress(raw[:cut]) + gzip.compress(raw[cut:]))
        return p
    if kind in ("plain", "stdin"):
        p = d / "log.json"
        p.write_bytes(raw)
        return p
    if kind == "mixprio":
        # lines with and without the <prio> prefix in one file (logs of different origin concatenated): every second line loses it
        p = d / "log-mixprio.json"
        lines = raw.split(b"\n")
        p.write_bytes(b"\n".join((l[l.index(b">") + 1:] if (l.startswith(b"<") and i % 2 == 0) else l) for i, l in enumerate(lines)))
        return p
    if kind == "noprio":
        p = d / "log-noprio.json"
        lines = raw.split(b"\n")
        p.write_bytes(b"\n".join(l[l.index(b">") + 1:] if l.startswith(b"<") else l for l in lines))
        return p
    raise AssertionError(kind)


@contextlib.contextmanager
def stdin_from(path: Path):
    saved = os.dup(0)
    fd = os.open(path, os.O_RDONLY)
    try:
        os.dup2(fd, 0)
        yield
    finally:
        os.dup2(saved, 0)
        os.close(fd)
        os.close(saved)


def expected_selection(W: list[dict[str, Any]], mode: str, k: int, prio: int) -> list[list[int]]:
    """Indices into W; a list of acceptable answers."""
    idx = list(range(len(W)))
    keep = lambda ids: [i for i in ids if PRIO[W[i]["levelno"]] <= prio]  # noqa: E731
    if mode == "forward":
        return [keep(idx)]
    if mode == "reverse":
        return [keep(idx[::-1])]
    if mode == "offset":
        return [keep(idx[k:])]
    if mode == "reverse-from":
        return [keep(idx[k::-1])] if k < len(W) else [[]]
    if mode == "tail":
        a = keep(idx[-k:]) if k < len(W) else keep(idx)
        f = keep(idx)
        b = f[-k:] if k < len(f) else f
        return [a, b]
    if mode == "head":
        return [keep(idx)[:k]]
    raise AssertionError(mode)


def expand_burst(case: dict[str, Any]) -> dict[str, Any]:
    """A burst case names its records by (n, salt) instead of listing them: n short records logged back to back."""
    if "burst" not in case:
        return case
    n, salt = case["burst"], case.get("salt", 0)
    recs = [{"msg": f"b{i}-{(i * 2654435761 + salt) & 0xFFFF:x}", "level": LEVELS[(i * 7 + salt + i // 5) % 7], "tags": None, "exc": False} for i in range(n)]
    return {**{k: v for k, v in case.items() if k not in ("burst", "salt")}, "records": recs}


@st.composite
def two_logs_s(draw) -> dict[str, Any]:
    """Two log files open at the same time in one process (a session log and a per-scan log, two command objects): a program of
    open/log/close steps over the logs a and b in which both are open together for a while."""
    na, nb = draw(st.integers(0, 12)), draw(st.integers(1, 12))
    steps: list[list[Any]] = [["open", "a"]]
    for i in range(draw(st.integers(0, na))):
        steps.append(["log", "a", f"a-{i}-{draw(st.text(max_size=6))}"])
    steps.append(["open", "b"])
    seq = ["a"] * na + ["b"] * nb
    seq = draw(st.permutations(seq))
    for i, nm in enumerate(seq):
        steps.append(["log", nm, f"{nm}-both-{i}-{draw(st.text(max_size=6))}"])
    first = draw(st.sampled_from(["a", "b"]))
    second = "b" if first == "a" else "a"
    steps.append(["close", first])
    for i in range(draw(st.integers(0, 5))):
        steps.append(["log", second, f"{second}-alone-{i}"])
    steps.append(["close", second])
    return {"kind": "two-logs", "steps": steps}


def check_two_logs(case: dict[str, Any]) -> list[tuple[str, str]]:
    import json
    import subprocess

    from gallia.log import PenlogReader

    d = Path(tempfile.mkdtemp(prefix="vf-c17t."))
    try:
        (d / "case.json").write_text(json.dumps(case))
        try:
            p = subprocess.run([sys.executable, "-m", "vf.c17_child", str(d / "case.json"), str(d)], capture_output=True, text=True, timeout=120)
        except subprocess.TimeoutExpired:
            w = json.loads((d / "written.json").read_text()) if (d / "written.json").exists() else {}
            sofar = {k: len(v) for k, v in w.items()}
            return [("C17/two-logs-open/blocks", f"steps {case['steps'][:6]}..: the process did not finish within 120 s (written so far: {sofar})")]
        if p.returncode != 0 or not (d / "done").exists():
            return [("C17/two-logs-open/raises", f"steps {case['steps'][:6]}..: rc={p.returncode} {p.stderr[-300:]}")]
        written = json.loads((d / "written.json").read_text())
        for nm in ("a", "b"):
            try:
                with PenlogReader(d / f"{nm}.json.zst") as rd:
                    got = [r.data for r in rd.records()]
            except Exception as e:  # noqa: BLE001
                return [(f"C17/two-logs-open/log-unreadable/{type(e).__name__}", f"log {nm} of steps {case['steps'][:6]}..: {type(e).__name__}: {e}")]
            if got != written[nm]:
                return [("C17/two-logs-open/log-differs", f"log {nm}: wrote {len(written[nm])} records {written[nm][:4]}.., read {len(got)} {got[:4]}..")]
            if "Traceback" in p.stderr or "Error" in p.stderr:
                return [("C17/two-logs-open/errors-on-stderr", f"steps {case['steps'][:6]}..: {p.stderr[-300:]}")]
        return []
    finally:
        shutil.rmtree(d, ignore_errors=True)


def check(case: dict[str, Any]) -> list[tuple[str, str]]:
    from gallia.log import PenlogPriority, PenlogReader

    if case.get("kind") == "two-logs":
        return check_two_logs(case)

    case = expand_burst(case)
    out: list[tuple[str, str]] = []
    d = Path(tempfile.mkdtemp(prefix="vf-c17."))
    try:
        try:
            zst, W = write_log(case, d)
        except Exception as e:  # noqa: BLE001
            return [(f"C17/write-raises/{type(e).__name__}", f"{type(e).__name__}: {e}")]
        cont = case["container"]
        path = make_container(cont, zst, d, bool(case.get("no_final_newline")))
        n = len(W)
        shape = "empty-log" if n == 0 else "log"
        mode, k, prio = case["mode"], case["k"], case["prio"]
        if mode == "tail" and k == 0:
            k = 1
        if mode in ("offset", "reverse-from") and k > n:
            k = n  # offsets beyond the end are not defined
        ctx_path = Path("-") if cont == "stdin" else path
        cm = stdin_from(path) if cont == "stdin" else contextlib.nullcontext()
        # ---------------- full forward read: fidelity of every field
        try:
            with cm:
                with PenlogReader(ctx_path) as rd:
                    full = list(rd.records())
                    ln = len(rd)
        except Exception as e:  # noqa: BLE001
            return [(f"C17/open-or-read-raises/{type(e).__name__}/{shape}", f"{cont}, {n} records: {type(e).__name__}: {e}")]
        if ln != n or len(full) != n:
            return [(f"C17/record-count/{shape}", f"{cont}: wrote {n} records at/above file level, len(reader)={ln}, forward read yields {len(full)}")]
        for i, (w, r) in enumerate(zip(W, full)):
            if w["exc"]:
                ok = r.data.startswith(w["msg"]) and "Traceback" in (r.data + (r.stacktrace or ""))
            else:
                ok = r.data == w["msg"]
            if not ok:
                out.append(("C17/fidelity/text", f"{cont} record {i}: wrote {w['msg'][:60]!r}, read {r.data[:60]!r}"))
            if int(r.priority) != PRIO[w["levelno"]]:
                out.append(("C17/fidelity/priority", f"{cont} record {i}: level {w['levelno']} read as priority {int(r.priority)}"))
            if (r.tags or None) != (w["tags"] or None) and r.tags != w["tags"]:
                out.append(("C17/fidelity/tags", f"{cont} record {i}: tags {w['tags']!r} read as {r.tags!r}"))
            if abs(r.datetime.timestamp() - w["created"]) > 2e-6:
                out.append(("C17/fidelity/timestamp", f"{cont} record {i}: created {w['created']!r} read as {r.datetime.timestamp()!r}"))
            if out:
                return out
        # ---------------- navigation
        exp = expected_selection(W, mode, k, prio)
        cm = stdin_from(path) if cont == "stdin" else contextlib.nullcontext()
        if case["via"] == "reader":
            try:
                with cm:
                    with PenlogReader(ctx_path) as rd:
                        p = PenlogPriority(prio)
                        if mode == "forward":
                            got = list(rd.records(p))
                        elif mode == "reverse":
                            # "reverse" = the whole log backwards, starting from the last record
                            got = list(rd.records(p, offset=-1, reverse=True)) if n else []
                        elif mode == "reverse-from":
                            # backwards from record k down to the first record
                            got = list(rd.records(p, offset=k, reverse=True)) if k < n else []
                        elif mode == "offset":
                            got = list(rd.records(p, offset=k)) if k < n or n == 0 else []
                        elif mode == "tail":
                            got = list(rd.records(p, offset=-min(k, n))) if n else []
                        else:
                            import itertools

                            got = list(itertools.islice(rd.records(p), k))
            except Exception as e:  # noqa: BLE001
                return [(f"C17/reader/{mode}/raises-{type(e).__name__}/{shape}", f"{cont} n={n} k={k} prio={prio}: {type(e).__name__}: {e}")]
            key = lambda r: (r.data, r.datetime, int(r.priority))  # noqa: E731
            if not any([key(full[i]) for i in e_] == [key(g) for g in got] for e_ in exp):
                out.append((f"C17/reader/{mode}/wrong-selection", f"{cont} n={n} k={k} prio={prio}: expected indices {exp[0][:12]}.. got "
                            f"{[next((i for i, f in enumerate(full) if key(f) == key(g)), '?') for g in got][:12]}.."))
        else:
            from gallia.cli import hr

            argv = ["hr", "-p", str(prio), "--color", "never"]
            if mode == "reverse":
                argv.append("-r")
            elif mode == "tail":
                argv += ["--tail", "-n", str(k)]
            elif mode == "head":
                argv += ["--head", "-n", str(k)]
            elif mode in ("offset", "reverse-from"):
                return out  # hr has no offset option
            argv.append(str(ctx_path))
            buf = io.StringIO()
            old_argv = sys.argv
            try:
                sys.argv = argv
                with cm, contextlib.redirect_stdout(buf):
                    rc = hr._main()
            except SystemExit as e:
                rc = e.code
            except Exception as e:  # noqa: BLE001
                sys.argv = old_argv
                return [(f"C17/hr/{mode}/raises-{type(e).__name__}/{'n>=len' if k >= n else 'n<len'}/{shape}", f"{' '.join(argv[:-1])} on {n} records: {type(e).__name__}: {e}")]
            finally:
                sys.argv = old_argv
            if rc != 0:
                out.append((f"C17/hr/{mode}/exit-{rc}", f"{' '.join(argv[:-1])} on {n} records: exit {rc}"))
            else:
                texts = ["".join(str(full[i]) for i in e_) for e_ in exp]
                if buf.getvalue() not in texts:
                    out.append((f"C17/hr/{mode}/wrong-output/{'n>=len' if k >= n else 'n<len'}", f"{' '.join(argv[:-1])} on {n} records (expected {len(exp[0])} records {exp[0][:10]}): "
                                f"printed {buf.getvalue()[:200]!r}"))
        return out
    finally:
        shutil.rmtree(d, ignore_errors=True)


def nontrivial(case: dict[str, Any]) -> bool:
    if case.get("kind") == "two-logs":
        return True
    n = sum(1 for r in case["records"] if r["level"] >= case["file_level"])
    removes = any(PRIO[r["level"]] > case["prio"] for r in case["records"] if r["level"] >= case["file_level"])
    return n >= 2 and (case["mode"] != "forward" or removes)


def shards(tier: str) -> list[dict[str, Any]]:
    if tier == "quick":
        return [{"n": 260} for _ in range(14)] + [{"two": 24}, {"burst": [3000, 20000]}]
    return [{"n": 6000} for _ in range(12)] + [{"two": 400}, {"two": 400}, {"burst": [1025, 2500, 20000, 60000]}, {"burst": [5000, 40000, 100000]}]


def run_shard(spec: dict[str, Any], seed: int) -> Collector:
    col = Collector()

    def body_two(case: dict[str, Any]) -> None:
        res = check(case)
        col.case(str(case["steps"]), True, cls="two-logs-open/" + ("b-closed-first" if [s for s in case["steps"] if s[0] == "close"][0][1] == "b" else "a-closed-first"),
                 sample={"steps": case["steps"][:8], "n_steps": len(case["steps"])})
        for b, m in res:
            col.violation(b, case, m)

    if "two" in spec:
        run_given(two_logs_s(), body_two, spec["two"], seed)
        return col

    def body(case: dict[str, Any]) -> None:
        res = check(case)
        n = len(case["records"])
        col.case(([(r["msg"][:50], len(r["msg"]), r["level"], r["tags"], r["exc"]) for r in case["records"]], case["mode"], case["k"], case["prio"],
                  case["container"], case["via"], case["file_level"]), nontrivial(case),
                 cls=f"{case['via']}/{case['mode']}/{case['container']}/{'n0' if n == 0 else 'n1' if n == 1 else 'n>1'}",
                 sample={**case, "records": [{**r, "msg": r["msg"][:40]} for r in case["records"][:4]], "n_records": n})
        for b, m in res:
            col.violation(b, case, m)

    if "burst" in spec:
        # long runs: tens of thousands of records logged back to back (a scan's trace log), read forward and from the tail
        for i, n in enumerate(spec["burst"]):
            for mode, k in (("forward", 0), ("tail", 10)):
                case = {"burst": n, "salt": (seed * 31 + i) & 0xFFFF, "file_level": 5, "container": "zst", "mode": mode, "k": k, "prio": 8, "via": "reader"}
                res = check(case)
                col.case(("burst", n, case["salt"], mode), True, cls=f"burst/{mode}", sample=case)
                for b, m in res:
                    col.violation(b, case, m)
        return col
    run_given(case_s(), body, spec["n"], seed)
    return col


def replay(witness: Any) -> list[tuple[str, str]]:
    return check(unjson(witness))


def shrink(bucket: str, witness: Any, seed: int) -> Any:
    if bucket.startswith("C17/two-logs-open"):
        return shrink_bucket(two_logs_s(), lambda c: {b for b, _ in check(c)}, bucket, seed, max_examples=40)
    return shrink_bucket(case_s(), lambda c: {b for b, _ in check(c)}, bucket, seed, max_examples=400)
