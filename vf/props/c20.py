"""C20 - Target URIs and range expressions denote exactly what the user wrote."""

from __future__ import annotations

import asyncio
import ipaddress
import os
import sys
import time
from typing import Any
from unittest import mock

from hypothesis import strategies as st

from vf.core import Collector, run_given, shrink_bucket, unjson

PROPERTY = "C20"
LEVEL = "exploration"
RULE = (
    "URI cases: (scheme, host in {DNS name, IPv4, IPv6 compressed/exploded/mixed}, port in {None,0..65535}, "
    "parameter map over the scheme's transport settings with integers spelled in dec/0x/0o/0b) -> "
    "TargetURI.from_parts -> str -> TargetURI -> transport Config / dialled (host, port); host:port join/split. "
    "Range cases: expressions drawn from the documented grammar (numbers and inclusive ranges, overlaps, reversed, "
    "repeated/bare outer keys, multiple spaces, list-of-strings form) evaluated by unravel/unravel_2d and the pydantic "
    "types Ranges/Ranges2D/AutoInt against a reference evaluator; malformed expressions must raise. "
    "Each case runs under a CPU budget in a worker with capped address space (a range expression must not expand into billions). "
    "Non-trivial: URI with IPv6 host or >=2 parameters; range expression with >=2 items of which one is a range. "
    "Distinct by input string."
)
ASSUMPTIONS = [
    "DNS host names are compared case-insensitively, IP literals as ipaddress objects",
    "'accepted by the transport' is observed as the transport's Config object built from qs_flat and, for tcp-lines/"
    "doip/hsfz, as the (host, port) handed to asyncio.open_connection (patched in the harness process)",
    "reference range evaluator written from the docstrings of unravel/unravel_2d (10 lines)",
]

# ---------------------------------------------------------------------------------------------
# strategies

label = st.from_regex(r"[a-z]([a-z0-9-]{0,10}[a-z0-9])?", fullmatch=True)
dns = st.lists(label, min_size=1, max_size=4).map(".".join)
ipv4 = st.ip_addresses(v=4).map(str)
_v6 = st.one_of(
    st.ip_addresses(v=6),
    st.sampled_from(["::1", "::", "fe80::1", "2001:db8::8a2e:370:7334", "::ffff:192.0.2.1", "ff02::1",
                     "2001:db8:0:0:1:0:0:1"]).map(ipaddress.ip_address),
)


@st.composite
def ipv6(draw) -> str:
    a = draw(_v6)
    form = draw(st.sampled_from(["compressed", "exploded", "mixed"]))
    if form == "compressed":
        return a.compressed
    if form == "exploded":
        return a.exploded
    # mixed: last 32 bits dotted, first six groups written out without leading zeros
    groups = a.exploded.split(":")[:6]
    tail = ".".join(str(b) for b in a.packed[12:])
    text = ":".join(g.lstrip("0") or "0" for g in groups) + ":" + tail
    assert ipaddress.ip_address(text) == a
    return text


host_s = st.one_of(dns, ipv4, ipv6())
port_s = st.one_of(st.none(), st.sampled_from([0, 1, 80, 1234, 6801, 13400, 65534, 65535]),
                   st.integers(0, 65535))


def spell(n: int, how: str) -> str:
    if how == "dec":
        return str(n)
    if how == "hex":
        return hex(n)
    if how == "HEX":
        return "0x" + format(n, "X")
    if how == "0X":
        return "0X" + format(n, "x")
    if how == "oct":
        return oct(n)
    if how == "bin":
        return bin(n)
    if how == "#02x":
        return f"{n:#02x}"
    raise AssertionError(how)


spelling = st.sampled_from(["dec", "hex", "HEX", "0X", "oct", "bin", "#02x"])


@st.composite
def int_param(draw, lo: int, hi: int):
    n = draw(st.one_of(st.sampled_from([lo, hi, min(hi, lo + 1), max(lo, hi - 1)]), st.integers(lo, hi)))
    if draw(st.booleans()):
        return n, n  # passed as int (urlencode calls str())
    return spell(n, draw(spelling)), n


SCHEMES: dict[str, dict[str, tuple[str, int, int]]] = {
    # name -> (kind, lo, hi); kind "auto" accepts all spellings, "dec" only decimal (plain pydantic int)
    "doip": {"src_addr": ("auto", 0, 0xFFFF), "target_addr": ("auto", 0, 0xFFFF),
             "activation_type": ("auto", 0, 0xFF), "protocol_version": ("auto", 0, 0xFF)},
    "hsfz": {"src_addr": ("auto", 0, 0xFF), "dst_addr": ("auto", 0, 0xFF), "ack_timeout": ("dec", 0, 100000)},
    "isotp": {"src_addr": ("auto", 0, 0x1FFFFFFF), "dst_addr": ("auto", 0, 0x1FFFFFFF),
              "ext_address": ("auto", 0, 0xFF), "rx_ext_address": ("auto", 0, 0xFF),
              "tx_padding": ("auto", 0, 0xFF), "rx_padding": ("auto", 0, 0xFF),
              "frame_txtime": ("dec", 0, 1000), "tx_dl": ("dec", 8, 64),
              "is_extended": ("bool", 0, 1), "is_fd": ("bool", 0, 1)},
    "tcp-lines": {},
}
REQUIRED = {"doip": ["src_addr", "target_addr"], "hsfz": ["src_addr", "dst_addr"],
            "isotp": ["src_addr", "dst_addr"], "tcp-lines": []}


@st.composite
def uri_case(draw) -> dict[str, Any]:
    scheme = draw(st.sampled_from(list(SCHEMES)))
    if scheme == "isotp":
        host = draw(st.sampled_from(["can0", "vcan0", "vcan12", "slcan0"]))
        port = None
    else:
        host = draw(host_s)
        port = draw(port_s)
    spec = SCHEMES[scheme]
    opt = [k for k in spec if k not in REQUIRED[scheme]]
    names = REQUIRED[scheme] + draw(st.lists(st.sampled_from(opt), unique=True, max_size=len(opt)) if opt else st.just([]))
    names = draw(st.permutations(names))
    args: dict[str, Any] = {}
    expect: dict[str, Any] = {}
    for k in names:
        kind, lo, hi = spec[k]
        if kind == "auto":
            v, n = draw(int_param(lo, hi))
        elif kind == "dec":
            n = draw(st.integers(lo, hi))
            v = draw(st.sampled_from([n, str(n)]))
        else:
            n = draw(st.booleans())
            v = draw(st.sampled_from([n, str(n), str(n).lower()]))
        args[k] = v
        expect[k] = n
    return {"kind": "uri", "scheme": scheme, "host": host, "port": port, "args": args, "expect": expect}


# ---- range grammar --------------------------------------------------------------------------

num = st.one_of(st.integers(0, 0xFF), st.integers(0, 0xFFFF), st.sampled_from([0, 1, 0x7F, 0x80, 0xFF, 0xFFFF]))


@st.composite
def item(draw) -> tuple[str, list[int]]:
    a = draw(num)
    sp = draw(spelling.filter(lambda s: s != "#02x"))
    if draw(st.integers(0, 2)) == 0:
        return spell(a, sp), [a]
    width = draw(st.one_of(st.integers(-3, 40), st.just(0)))
    b = max(0, a + width)
    sp2 = draw(spelling.filter(lambda s: s != "#02x"))
    return f"{spell(a, sp)}-{spell(b, sp2)}", list(range(a, b + 1))


@st.composite
def ranges_1d(draw, min_items: int = 1) -> tuple[str, list[int], int, int]:
    items = draw(st.lists(item(), min_size=min_items, max_size=6))
    expr = ",".join(i[0] for i in items)
    vals = sorted({v for i in items for v in i[1]})
    n_ranges = sum("-" in i[0] for i in items)
    return expr, vals, len(items), n_ranges


@st.composite
def ranges_case(draw) -> dict[str, Any]:
    expr, vals, n, nr = draw(ranges_1d())
    return {"kind": "r1", "expr": expr, "expect": vals, "items": n, "ranges": nr}


@st.composite
def ranges2d_case(draw) -> dict[str, Any]:
    n = draw(st.integers(1, 5))
    tokens: list[str] = []
    model: dict[int, set[int] | None] = {}
    nitems = 0
    nranges = 0
    for _ in range(n):
        oexpr, ovals, oi, orr = draw(ranges_1d())
        nitems += oi
        nranges += orr
        if draw(st.integers(0, 3)) == 0:
            tokens.append(oexpr)
            for x in ovals:
                model[x] = None
        else:
            iexpr, ivals, ii, ir = draw(ranges_1d())
            nitems += ii
            nranges += ir
            tokens.append(f"{oexpr}:{iexpr}")
            for x in ovals:
                if x not in model:
                    model[x] = set()
                if model[x] is not None:
                    model[x] |= set(ivals)  # type: ignore[operator]
    seps = [draw(st.sampled_from([" ", " ", "  ", "   "])) for _ in range(len(tokens) - 1)]
    expr = tokens[0] + "".join(s + t for s, t in zip(seps, tokens[1:]))
    expect = {str(k): (None if v is None else sorted(v)) for k, v in sorted(model.items())}
    return {"kind": "r2", "expr": expr, "tokens": tokens, "expect": expect, "items": nitems, "ranges": nranges}


MALFORMED_TOKENS = ["zz", "0xg", "08", "1-2-3", "1-", "-1", "0x", "0b2", "0o8", "1..3", "1;2", "0x1-0xz", "1,,2", ",",
                    "1,", ",1", "--", "1:2:3"]


@st.composite
def malformed_case(draw) -> dict[str, Any]:
    bad = draw(st.sampled_from([t for t in MALFORMED_TOKENS if ":" not in t]))
    pre = draw(st.lists(item(), max_size=2))
    post = draw(st.lists(item(), max_size=2))
    if "," in bad and bad != "1,,2":
        expr = bad if not (pre or post) else bad  # comma-shapes tested alone
    else:
        expr = ",".join([i[0] for i in pre] + [bad] + [i[0] for i in post])
    two_d = draw(st.booleans())
    if two_d:
        side = draw(st.sampled_from(["outer", "inner", "colons"]))
        if side == "outer":
            expr2 = f"{expr}:1"
        elif side == "inner":
            expr2 = f"1:{expr}"
        else:
            expr2 = "1:2:3"
        return {"kind": "bad2", "expr": expr2}
    return {"kind": "bad1", "expr": expr}


@st.composite
def hostport_case(draw) -> dict[str, Any]:
    return {"kind": "hp", "host": draw(host_s), "port": draw(st.one_of(st.none(), st.integers(0, 65535))),
            "default": draw(st.one_of(st.none(), st.integers(0, 65535)))}


@st.composite
def autoint_case(draw) -> dict[str, Any]:
    n = draw(st.one_of(st.integers(0, 2**32), st.sampled_from([0, 1, 7, 8, 255, 256, 0xFFFF])))
    neg = draw(st.booleans()) and n > 0
    s = spell(n, draw(spelling))
    return {"kind": "int", "text": ("-" + s) if neg else s, "expect": -n if neg else n}


any_case = st.one_of(uri_case(), ranges_case(), ranges2d_case(), malformed_case(), hostport_case(), autoint_case())

# ---------------------------------------------------------------------------------------------
# oracle


def _host_eq(a: str | None, b: str) -> bool:
    if a is None:
        return False
    try:
        return ipaddress.ip_address(a) == ipaddress.ip_address(b)
    except ValueError:
        return a.lower() == b.lower()


class _Dialled(Exception):
    pass


def _dial(scheme: str, uri: Any) -> tuple[Any, Any] | str:
    """Let the transport of that scheme connect; capture what it hands to asyncio.open_connection."""
    from gallia.transports import DoIPTransport, HSFZTransport, TCPLinesTransport

    cls = {"doip": DoIPTransport, "hsfz": HSFZTransport, "tcp-lines": TCPLinesTransport}[scheme]
    seen: list[tuple[Any, Any]] = []

    async def fake_open(host=None, port=None, **kw):  # noqa: ANN001
        seen.append((host, port))
        raise ConnectionRefusedError("verif: dial captured")

    async def go():
        try:
            await cls.connect(uri, timeout=1)
        except ConnectionError:
            pass

    with mock.patch("asyncio.open_connection", fake_open):
        try:
            asyncio.run(go())
        except Exception as e:  # noqa: BLE001
            return f"{type(e).__name__}: {e}"
    if not seen:
        return "transport did not dial"
    return seen[0]


def _isotp_sockopts(uri: Any) -> dict[str, Any] | str:
    """Open an ISO-TP transport on a socket double and read back what it hands to the kernel: the options structure
    (flags, frame_txtime, ext_address, txpad_content, rxpad_content, rx_ext_address) and the bound addresses."""
    import struct
    from unittest import mock

    from gallia.transports import isotp as mod

    rec: dict[str, Any] = {}

    class FakeSock:
        def __init__(self, *a: Any, **kw: Any) -> None:
            pass

        def setsockopt(self, level: int, opt: int, data: Any) -> None:
            if opt == mod.CAN_ISOTP_OPTS:
                rec["opts"] = struct.unpack("@IIBBBB", bytes(data)[:struct.calcsize("@IIBBBB")])

        def bind(self, addr: Any) -> None:
            rec["bind"] = addr

        def setblocking(self, *_a: Any) -> None:
            pass

        def close(self) -> None:
            pass

    async def go() -> None:
        with mock.patch.object(mod.s, "socket", FakeSock):
            tr = await mod.ISOTPTransport.connect(uri)
            rec["tr"] = tr

    try:
        import asyncio

        asyncio.run(go())
    except Exception as e:  # noqa: BLE001
        return f"{type(e).__name__}: {e}"
    if "opts" not in rec:
        return "no ISO-TP options were set on the socket"
    f, txtime, ext, txpad, rxpad, rxext = rec["opts"]
    return {"flags": f, "frame_txtime": txtime, "ext_address": ext, "tx_padding": txpad, "rx_padding": rxpad, "rx_ext_address": rxext,
            "flag_bits": {"ext_address": mod.CAN_ISOTP_EXTEND_ADDR, "rx_ext_address": mod.CAN_ISOTP_RX_EXT_ADDR,
                          "tx_padding": mod.CAN_ISOTP_TX_PADDING, "rx_padding": mod.CAN_ISOTP_RX_PADDING}}


def _hsfz_ack_time(uri: Any) -> float | str:
    """Connect an HSFZ transport to a gateway that never answers (in-memory streams, virtual time) and measure after how many
    seconds an unacknowledged write gives up: that is the acknowledgement timeout the transport really runs with."""
    from gallia.transports import HSFZTransport

    from vf.vtime import MemWriter, run_virtual

    box: dict[str, Any] = {}

    async def fake_open(host=None, port=None, **kw):  # noqa: ANN001
        return asyncio.StreamReader(), MemWriter()

    async def go() -> None:
        loop = asyncio.get_event_loop()
        tr = await HSFZTransport.connect(uri, timeout=1)
        t0 = loop.time()
        try:
            await tr.write(b"\x3e\x00", timeout=None)
            box["res"] = "write returned"
        except ConnectionError:
            box["res"] = loop.time() - t0
        except Exception as e:  # noqa: BLE001
            box["res"] = f"{type(e).__name__}: {e}"
        try:
            await tr.close()
        except Exception:  # noqa: BLE001
            pass

    with mock.patch("asyncio.open_connection", fake_open):
        status, val, _ = run_virtual(go, max_virtual=1e6)
    if status != "ok":
        return f"{status}: {val!r}"
    return box.get("res", "no result")


_TA: dict[str, Any] = {}


class _TAProxy:
    """pydantic.TypeAdapter with a per-type cache (construction is the expensive part)."""

    @staticmethod
    def TypeAdapter(t: Any) -> Any:  # noqa: N802
        import pydantic as _p

        k = repr(t)
        if k not in _TA:
            _TA[k] = _p.TypeAdapter(t)
        return _TA[k]


class _TooLong(Exception):
    pass


_SLOW = [0]


def _cpu_bounded(f: Any, seconds: float = 10.0) -> Any:
    """f() under a CPU-time budget (ITIMER_VIRTUAL counts this process's own CPU time, so machine load does not matter): an
    expression that denotes a handful of numbers must not expand into billions."""
    import signal
    import threading

    if threading.current_thread() is not threading.main_thread() or signal.getitimer(signal.ITIMER_VIRTUAL)[0] > 0:
        return f()  # (an enclosing budget is already running)

    live = {"on": True}

    def on_alarm(signum: int, frame: Any) -> None:
        if live["on"]:
            raise _TooLong()

    old = signal.signal(signal.SIGVTALRM, on_alarm)
    signal.setitimer(signal.ITIMER_VIRTUAL, seconds, 0.25)  # repeating: an exception raised inside a GC callback is swallowed
    try:
        return f()
    finally:
        live["on"] = False
        signal.setitimer(signal.ITIMER_VIRTUAL, 0)
        signal.signal(signal.SIGVTALRM, old)


def check(case: dict[str, Any]) -> list[tuple[str, str]]:
    if _SLOW[0] >= 5:
        return []  # this process has already reported five runaway cases: the rest of its work is skipped, not waited for
    t0_ = time.process_time()
    try:
        res_ = _cpu_bounded(lambda: _check(case), 20.0)
        _slow_note(case, t0_)
        if time.process_time() - t0_ > 6.0:
            _SLOW[0] += 1  # (e.g. a runaway that ended in MemoryError under the address-space cap)
        return res_
    except MemoryError:
        import gc

        gc.collect()
        _SLOW[0] += 1
        return [(f"C20/{case.get('kind', '?')}/takes-forever", f"{str(case)[:200]}: the result does not fit into 3 GB of memory")]
    except _TooLong:
        _slow_note(case, t0_)
        _SLOW[0] += 1
        return [(f"C20/{case.get('kind', '?')}/takes-forever", f"{str(case)[:200]}: no result after 20 s of CPU time")]


def _slow_note(case: dict[str, Any], t0_: float) -> None:
    if os.environ.get("VF_C20_PROFILE") and time.process_time() - t0_ > 0.4:
        print(f"C20-SLOW {time.process_time() - t0_:.2f}s {str(case)[:300]}", file=sys.stderr, flush=True)


def _check(case: dict[str, Any]) -> list[tuple[str, str]]:
    """Returns [(bucket, message)] for one case (JSON form accepted)."""
    pydantic = _TAProxy

    from gallia.command.config import AutoInt, Ranges, Ranges2D
    from gallia.net import join_host_port, split_host_port
    from gallia.transports.base import TargetURI
    from gallia.transports.doip import DoIPConfig
    from gallia.transports.hsfz import HSFZConfig
    from gallia.transports.isotp import ISOTPConfig
    from gallia.utils import auto_int, unravel, unravel_2d

    out: list[tuple[str, str]] = []
    k = case["kind"]
    if k == "uri":
        scheme, host, port, args, expect = case["scheme"], case["host"], case["port"], case["args"], case["expect"]
        v6 = ":" in host
        shape = ("ipv6" if v6 else "host") + ("+port" if port is not None else "-port")
        try:
            u = TargetURI.from_parts(scheme, host, port, args)
            s = str(u)
            p = TargetURI(s)
            got = (str(p.scheme), p.hostname, p.port, p.qs_flat)
        except Exception as e:  # noqa: BLE001
            return [(f"C20/uri/{shape}/unparsable", f"from_parts({scheme!r},{host!r},{port!r},{args!r}) -> {type(e).__name__}: {e}")]
        if got[0] != scheme:
            out.append((f"C20/uri/{shape}/scheme", f"{s}: scheme {got[0]!r} != {scheme!r}"))
        if not _host_eq(got[1], host):
            out.append((f"C20/uri/{shape}/host", f"{s}: host {got[1]!r} != {host!r}"))
        if got[2] != port:
            out.append((f"C20/uri/{shape}/port", f"{s}: port {got[2]!r} != {port!r}"))
        if got[3] != {kk: str(vv) for kk, vv in args.items()}:
            out.append((f"C20/uri/{shape}/params", f"{s}: qs_flat {got[3]!r} != {args!r}"))
        if out:
            return out
        cfgcls = {"doip": DoIPConfig, "hsfz": HSFZConfig, "isotp": ISOTPConfig}.get(scheme)
        if cfgcls is not None:
            try:
                cfg = cfgcls(**p.qs_flat)
                for kk, n in expect.items():
                    if getattr(cfg, kk) != n:
                        out.append((f"C20/config/{scheme}/{kk}", f"{s}: {kk}={getattr(cfg, kk)!r}, wrote {args[kk]!r} (= {n})"))
            except Exception as e:  # noqa: BLE001
                out.append((f"C20/config/{scheme}/rejected", f"{s}: {type(e).__name__}: {str(e)[:300]}"))
        if scheme != "isotp" and not out:
            d = _dial(scheme, p)
            if isinstance(d, str):
                out.append((f"C20/dial/{scheme}/{shape}", f"{s}: {d}"))
            else:
                dh, dp = d
                defport = {"doip": 13400, "hsfz": 6801}.get(scheme)
                exp_port = port if port is not None else defport
                if not _host_eq(dh, host) or dp != exp_port:
                    out.append((f"C20/dial/{scheme}/{shape}", f"{s}: dialled {(dh, dp)!r}, expected {(host, exp_port)!r}"))
        if scheme == "isotp" and not out:
            # what reaches the socket: each of the four optional bytes in its own slot, with its own flag
            so = _isotp_sockopts(p)
            if isinstance(so, str):
                out.append(("C20/effective/isotp/connect", f"{s}: {so}"))
            else:
                for kk in ("ext_address", "rx_ext_address", "tx_padding", "rx_padding"):
                    want = expect.get(kk)
                    flag = bool(so["flags"] & so["flag_bits"][kk])
                    if flag != (want is not None) or so[kk] != (want or 0):
                        out.append((f"C20/effective/isotp/{kk}", f"{s}: the socket gets {kk}={so[kk]:#x} (flag {'set' if flag else 'clear'}), the URI says {want!r}"))
                if "frame_txtime" in expect and so["frame_txtime"] != expect["frame_txtime"]:
                    out.append(("C20/effective/isotp/frame_txtime", f"{s}: the socket gets {so['frame_txtime']}, the URI says {expect['frame_txtime']}"))
        if scheme == "hsfz" and not out and "ack_timeout" in expect:
            # the timeout is written in milliseconds: the transport has to run with exactly that
            t = _hsfz_ack_time(p)
            if not isinstance(t, float) or abs(t - expect["ack_timeout"] / 1000) > 1e-3:
                out.append(("C20/effective/hsfz/ack_timeout", f"{s}: an unacknowledged write gives up after {t!r} s, the URI says {expect['ack_timeout']} ms"))
        return out
    if k == "hp":
        host, port, default = case["host"], case["port"], case["default"]
        v6 = ":" in host
        shape = "ipv6" if v6 else "host"
        if port is not None:
            try:
                j = join_host_port(host, port)
                h2, p2 = split_host_port(j, default)
            except Exception as e:  # noqa: BLE001
                return [(f"C20/hostport/{shape}/join-split-raises", f"{host!r},{port!r}: {type(e).__name__}: {e}")]
            if not _host_eq(h2, host) or p2 != port:
                pz = "port0" if port == 0 else "port"
                out.append((f"C20/hostport/{shape}/{pz}-roundtrip", f"split(join({host!r},{port})={j!r}, default={default}) = {(h2, p2)!r}"))
        else:
            try:
                h2, p2 = split_host_port(host, default)
            except Exception as e:  # noqa: BLE001
                return [(f"C20/hostport/{shape}/split-raises", f"{host!r}: {type(e).__name__}: {e}")]
            if not _host_eq(h2, host) or p2 != default:
                out.append((f"C20/hostport/{shape}/default-port", f"split({host!r}, default={default}) = {(h2, p2)!r}"))
        return out
    if k == "r1":
        expr, expect = case["expr"], case["expect"]
        forms: list[tuple[str, Any]] = [("unravel", lambda: unravel(expr)),
                                        ("Ranges[str]", lambda: pydantic.TypeAdapter(Ranges).validate_python(expr)),
                                        ("Ranges[list]", lambda: pydantic.TypeAdapter(Ranges).validate_python(expr.split(","))),
                                        ("Ranges[spaces]", lambda: pydantic.TypeAdapter(Ranges).validate_python(expr.replace(",", "  ")))]
        for name, f in forms:
            try:
                got = _cpu_bounded(f)
            except _TooLong:
                out.append((f"C20/ranges/{name}/takes-forever", f"{expr!r}: no result after 10 s of CPU time (expected {len(expect)} numbers)"))
                return out
            except Exception as e:  # noqa: BLE001
                out.append((f"C20/ranges/{name}/raises", f"{expr!r}: {type(e).__name__}: {e}"))
                continue
            if list(got) != expect:
                out.append((f"C20/ranges/{name}/wrong-set", f"{expr!r}: got {list(got)[:20]!r}.. expected {expect[:20]!r}.."))
        return out
    if k == "r2":
        expr, expect = case["expr"], case["expect"]
        forms2 = [("unravel_2d", lambda: unravel_2d(expr)),
                  ("Ranges2D[str]", lambda: pydantic.TypeAdapter(Ranges2D).validate_python(expr)),
                  ("Ranges2D[list]", lambda: pydantic.TypeAdapter(Ranges2D).validate_python(list(case["tokens"])))]
        for name, f in forms2:
            try:
                got = _cpu_bounded(f)
            except _TooLong:
                out.append((f"C20/ranges2d/{name}/takes-forever", f"{expr!r}: no result after 10 s of CPU time"))
                return out
            except Exception as e:  # noqa: BLE001
                out.append((f"C20/ranges2d/{name}/raises", f"{expr!r}: {type(e).__name__}: {e}"))
                continue
            g = {str(a): (None if b is None else list(b)) for a, b in got.items()}
            if g != expect or [str(a) for a in got] != list(expect):
                kind = "bare-key" if any(v is None for v in expect.values()) and \
                    {a for a, b in g.items() if b is None} != {a for a, b in expect.items() if b is None} else "wrong-map"
                out.append((f"C20/ranges2d/{name}/{kind}", f"{expr!r}: got {str(g)[:300]} expected {str(expect)[:300]}"))
        return out
    if k in ("bad1", "bad2"):
        expr = case["expr"]
        fs = [("unravel", unravel), ("Ranges", pydantic.TypeAdapter(Ranges).validate_python)] if k == "bad1" else \
            [("unravel_2d", unravel_2d), ("Ranges2D", pydantic.TypeAdapter(Ranges2D).validate_python)]
        for name, f in fs:
            try:
                got = f(expr)
            except Exception:  # noqa: BLE001
                continue
            out.append((f"C20/malformed/{name}/accepted", f"{expr!r} accepted as {str(got)[:200]}"))
        return out
    if k == "int":
        text, expect = case["text"], case["expect"]
        for name, f in [("auto_int", auto_int), ("AutoInt", pydantic.TypeAdapter(AutoInt).validate_python)]:
            try:
                got = f(text)
            except Exception as e:  # noqa: BLE001
                out.append((f"C20/int/{name}/raises", f"{text!r}: {type(e).__name__}: {e}"))
                continue
            if got != expect:
                out.append((f"C20/int/{name}/wrong", f"{text!r} -> {got} expected {expect}"))
        return out
    raise AssertionError(k)


def nontrivial(case: dict[str, Any]) -> bool:
    k = case["kind"]
    if k == "uri":
        return ":" in case["host"] or len(case["args"]) >= 2
    if k in ("r1", "r2"):
        return case["items"] >= 2 and case["ranges"] >= 1
    if k == "hp":
        return ":" in case["host"] and case["port"] is not None
    return False


def key(case: dict[str, Any]) -> str:
    k = case["kind"]
    if k == "uri":
        return f"uri|{case['scheme']}|{case['host']}|{case['port']}|{sorted(case['args'].items(), key=str)}"
    if k == "hp":
        return f"hp|{case['host']}|{case['port']}|{case['default']}"
    return f"{k}|{case.get('expr', case.get('text'))}"


STRATS = {"uri": uri_case(), "r1": ranges_case(), "r2": ranges2d_case(), "bad": malformed_case(),
          "hp": hostport_case(), "int": autoint_case()}


def shards(tier: str) -> list[dict[str, Any]]:
    if tier == "quick":
        plan = {"uri": 1500, "r1": 2000, "r1 ": 2000, "r2": 1000, "r2 ": 1000, "r2  ": 1000, "bad": 800, "hp": 1500,
                "hp ": 1500, "int": 2000}
        out = [{"what": k.strip(), "n": n} for k, n in plan.items()]
        out.append({"what": "ports", "hosts": ["example.org"], "lo": 0, "hi": 65535})
        return out
    plan = {"uri": 25000, "r1": 150000, "r2": 80000, "bad": 10000, "hp": 100000, "int": 50000}
    out = []
    for k, n in plan.items():
        parts = 4 if n >= 80000 else 2
        out += [{"what": k, "n": n // parts} for _ in range(parts)]
    for h in ["example.org", "192.0.2.7", "2001:db8::1"]:
        out.append({"what": "ports", "hosts": [h], "lo": 0, "hi": 65535})
    return out


def _limit_memory() -> None:
    """A range expression that denotes a handful of numbers must not expand into billions: inside one C-level call that cannot be
    interrupted, so the address space of this worker process is capped instead (the runaway then ends in a MemoryError)."""
    import resource

    soft, hard = resource.getrlimit(resource.RLIMIT_AS)
    cap = 3 * 2**30
    if soft == resource.RLIM_INFINITY or soft > cap:
        resource.setrlimit(resource.RLIMIT_AS, (cap, hard))


def run_shard(spec: dict[str, Any], seed: int) -> Collector:
    _limit_memory()
    col = Collector()

    def body(case: dict[str, Any]) -> None:
        res = check(case)
        kind = case["kind"]
        cls = kind
        if kind == "uri":
            cls = f"uri/{case['scheme']}/" + ("ipv6" if ":" in case["host"] else "v4-or-name") + \
                ("+port" if case["port"] is not None else "-port")
        col.case(key(case), nontrivial(case), cls=cls, sample=case)
        for b, m in res:
            col.violation(b, case, m)

    if spec["what"] == "ports":
        for h in spec["hosts"]:
            for p in range(spec["lo"], spec["hi"] + 1):
                body({"kind": "hp", "host": h, "port": p, "default": 1})
            col.exhaustive_parts.append(f"join/split host:port for host {h} x all ports 0..65535")
        return col
    run_given(STRATS[spec["what"]], body, spec["n"], seed)
    return col


def replay(witness: Any) -> list[tuple[str, str]]:
    _limit_memory()
    return check(unjson(witness))


def shrink(bucket: str, witness: Any, seed: int) -> Any:
    kind = unjson(witness)["kind"]
    strat = STRATS["bad" if kind.startswith("bad") else kind]
    return shrink_bucket(strat, lambda c: {b for b, _ in check(c)}, bucket, seed, max_examples=3000)
