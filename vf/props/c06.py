"""C06 - DoIP: frames are demultiplexed correctly under any segmentation and interleaving."""

from __future__ import annotations

import asyncio
import struct
from typing import Any
from unittest import mock

from hypothesis import strategies as st

from vf.core import Collector, run_given, shrink_bucket, unjson
from vf.demux import OpRecord, Wire, run_program
from vf.vtime import MemWriter, run_virtual

PROPERTY = "C06"
LEVEL = "exploration"
RULE = (
    "Activation: target URIs with generated source/target addresses, activation type 0..255, protocol version 1..3 (or arbitrary byte) "
    "x routing activation response code 0..255 (quick: all types x 4 codes and all codes x 2 types; thorough: the full 256 x 256 grid), "
    "gateway answers optionally preceded by alive checks / foreign frames or never: the first bytes on the wire must be "
    "ver, ~ver, 0005, 00000007, src, type, 00000000 and connect() must succeed iff the code is 0x10, else raise a ConnectionError within "
    "the 2 s activation time. Demultiplexing: client program of write/read/sleep ops x reactive gateway script over {positive ack with "
    "full / partial / empty echo, ack with wrong echo or wrong pair, negative ack codes, diagnostic message for this / another pair, "
    "alive-check request, unknown payload type, generic NACK, stray routing activation response} x unsolicited frames x split points, on "
    "the real DoIPConnection/DoIPTransport over in-memory streams under virtual time; a post-hoc reference demultiplexer on the recorded "
    "delivery timeline decides every operation; every alive-check request must be answered within 0.5 s with the source address. The gateway double parses the client's outgoing byte stream "
    "(it must be a sequence of complete frames); some cases write a 5-70 KiB message to a slowly reading gateway (drain() suspends) while alive checks arrive. "
    "Non-trivial: stream contains a frame that is not the awaited one, or a split inside a frame. Distinct by case."
)
ASSUMPTIONS = [
    "gateway and TCP are modelled at the asyncio StreamReader boundary; asyncio.open_connection is patched in the harness process for connect()",
    "each client write is answered by at most one acknowledgement that is valid for it, so that no valid stale acknowledgement can be left over "
    "(whether an acknowledgement skipped by a timed-out read stays available is not defined by the statement)",
]

ACK_TIME = 2.0
ALIVE_TIME = 0.5


def doip(ver: int, ptype: int, payload: bytes) -> bytes:
    return struct.pack("!BBHL", ver, ver ^ 0xFF, ptype, len(payload)) + payload


def _pair(fr: dict[str, Any], src: int, tgt: int) -> tuple[int, int]:
    """(source, target) fields of a frame FROM another pair; never equal to (tgt, src), our own pair"""
    how = fr.get("pair", "rand")
    a, b = fr["a"], fr["b"]
    if how == "src-only-differs":
        a, b = (tgt + 1 + a % 7) & 0xFFFF, src
    elif how == "dst-only-differs":
        a, b = tgt, (src + 1 + b % 7) & 0xFFFF
    elif how == "swapped" and src != tgt:
        a, b = src, tgt
    if (a, b) == (tgt, src):
        a = (a + 1) & 0xFFFF
    return a, b


def enc(fr: dict[str, Any], src: int, tgt: int, ver: int, req: bytes | None) -> bytes:
    t = fr["t"]
    r = req or b""
    if t == "ack":
        n = {"full": len(r), "partial": fr.get("n", 1) % (len(r) + 1), "empty": 0}[fr["echo"]]
        return doip(ver, 0x8002, struct.pack("!HHB", tgt, src, 0) + r[:n])
    if t == "ack-wrong-echo":
        return doip(ver, 0x8002, struct.pack("!HHB", tgt, src, 0) + bytes([(r[:1] or b"\x00")[0] ^ 0xFF]) + r[1:3])
    if t == "ack-longer-echo":
        # acknowledges a longer message that merely starts with this one (the late ack of an earlier, longer request)
        return doip(ver, 0x8002 if fr.get("positive", True) else 0x8003, struct.pack("!HHB", tgt, src, 0 if fr.get("positive", True) else 2) + r + (fr.get("extra") or b"\x90"))
    if t == "ack-wrong-pair":
        return doip(ver, 0x8002, struct.pack("!HHB", *_pair(fr, src, tgt), 0) + r)
    if t == "nack":
        return doip(ver, 0x8003, struct.pack("!HHB", tgt, src, fr["code"]) + r[: fr.get("n", 0) % (len(r) + 1)])
    if t == "diag":
        return doip(ver, 0x8001, struct.pack("!HH", tgt, src) + fr["p"])
    if t == "diag-other":
        return doip(ver, 0x8001, struct.pack("!HH", *_pair(fr, src, tgt)) + fr["p"])
    if t == "alive":
        return doip(ver, 0x0007, b"")
    if t == "unknown":
        return doip(ver, fr["pt"], fr["p"])
    if t == "generic-nack":
        return doip(ver, 0x0000, bytes([fr["code"]]))
    if t == "stray-rar":
        return doip(ver, 0x0006, struct.pack("!HHBI", src, tgt, fr["code"], 0))
    raise AssertionError(t)


def classify(raw: bytes, src: int, tgt: int) -> dict[str, Any]:
    _, _, ptype, ln = struct.unpack("!BBHL", raw[:8])
    body = raw[8:]
    if ptype == 0x0007:
        return {"k": "alive"}
    if ptype == 0x8001:
        a, b = struct.unpack("!HH", body[:4])
        return {"k": "diag", "mine": (a, b) == (tgt, src), "p": body[4:]}
    if ptype in (0x8002, 0x8003):
        a, b, code = struct.unpack("!HHB", body[:5])
        return {"k": "ack" if ptype == 0x8002 else "nack", "mine": (a, b) == (tgt, src), "code": code, "echo": body[5:]}
    return {"k": "other"}


payload_s = st.one_of(st.binary(min_size=1, max_size=6), st.binary(min_size=1, max_size=64))
addr16 = st.integers(0, 0xFFFF)


@st.composite
def frame_s(draw, reactive: bool) -> dict[str, Any]:
    kinds = ["diag", "diag", "diag-other", "alive", "alive", "unknown", "generic-nack", "stray-rar"]
    if reactive:
        kinds += ["ack-wrong-echo", "ack-wrong-pair", "ack-longer-echo"]
    k = draw(st.sampled_from(kinds))
    if k == "ack-wrong-echo":
        return {"t": k}
    if k == "ack-longer-echo":
        return {"t": k, "extra": draw(st.binary(min_size=1, max_size=3)), "positive": draw(st.booleans())}
    # foreign address pairs: fully random, or differing from ours in exactly one of the two addresses
    # ("S"/"T" are replaced by the case's source/target address when the frame is encoded)
    pair = draw(st.sampled_from(["rand", "src-only-differs", "dst-only-differs", "swapped"]))
    if k == "ack-wrong-pair":
        return {"t": k, "a": draw(addr16), "b": draw(addr16), "pair": pair}
    if k == "diag":
        return {"t": "diag", "p": draw(payload_s)}
    if k == "diag-other":
        return {"t": "diag-other", "a": draw(addr16), "b": draw(addr16), "pair": pair, "p": draw(payload_s)}
    if k == "alive":
        return {"t": "alive"}
    if k == "unknown":
        return {"t": "unknown", "pt": draw(st.sampled_from([0x4002, 0x4004, 0x0004, 0x0001, 0x8004, 0xFFFF])), "p": draw(st.binary(max_size=20))}
    if k == "generic-nack":
        return {"t": "generic-nack", "code": draw(st.integers(0, 4))}
    return {"t": "stray-rar", "code": draw(st.sampled_from([0x10, 0x00, 0x06]))}


DELAYS = [1, 1, 2, 5, 10, 30, 77, 130, 190, 230]


@st.composite
def case_s(draw) -> dict[str, Any]:
    src, tgt = draw(st.sampled_from([(0x0E00, 0x001D), (0x0E00, 0x001D), (0x0001, 0xFFFF), (0x1234, 0x1234)]))
    program: list[list[Any]] = []
    for _ in range(draw(st.integers(1, 8))):
        k = draw(st.sampled_from(["write", "write", "read", "read", "sleep"]))
        if k == "write":
            nw = sum(1 for o in program if o[0] == "write")
            program.append(["write", bytes([0x10 + nw]) + draw(st.one_of(st.binary(max_size=3), st.binary(min_size=4, max_size=40)))])
            # a caller timeout longer than the acknowledgement time does not change anything: the acknowledgement deadline decides
            wt = draw(st.sampled_from([None, None, 3.3701, 7.0701]))
            if wt is not None:
                program[-1].append(wt)
        elif k == "read":
            program.append(["read", draw(st.sampled_from([0.3701, 1.3701, 0.0701, 3.3701]))])
        else:
            program.append(["sleep", draw(st.sampled_from([0.0501, 0.2501, 1.1001]))])
    reactions = []
    for _ in range(sum(1 for o in program if o[0] == "write")):
        lst = [[d, f] for d, f in draw(st.lists(st.tuples(st.sampled_from(DELAYS), frame_s(True)), max_size=5))]
        # exactly one (or, rarely, no) acknowledgement that is valid for this write
        how = draw(st.sampled_from(["full", "full", "full", "partial", "empty", "nack6", "nack", "none"]))
        if how in ("full", "partial", "empty"):
            a = {"t": "ack", "echo": how, "n": draw(st.integers(1, 5))}
        elif how == "nack6":
            a = {"t": "nack", "code": 6, "n": draw(st.integers(0, 3))}
        elif how == "nack":
            a = {"t": "nack", "code": draw(st.sampled_from([2, 3, 4, 5, 7, 8, 0x55])), "n": draw(st.integers(0, 3))}
        else:
            a = None
        if a is not None:
            lst.insert(draw(st.integers(0, len(lst))), [draw(st.sampled_from(DELAYS)), a])
        reactions.append(lst)
    unsolicited = [[t, f] for t, f in draw(st.lists(st.tuples(st.integers(1, 300), frame_s(False)), max_size=4))]
    if draw(st.integers(0, 7)) == 0:
        # a burst: 17..48 frames (diagnostic messages for this tester or for others) while the client is busy or blocked in one
        # read, an alive check behind them, then enough reads to drain everything
        n = draw(st.integers(17, 48))
        t0 = draw(st.integers(1, 40))
        mine = draw(st.sampled_from(["mine", "other", "mixed"]))
        burst = []
        for i in range(n):
            own = mine == "mine" or (mine == "mixed" and draw(st.booleans()))
            burst.append([t0 + i, {"t": "diag", "p": bytes([0x62, i])} if own else
                          {"t": "diag-other", "a": draw(addr16), "b": draw(addr16), "pair": draw(st.sampled_from(["rand", "src-only-differs", "dst-only-differs"])), "p": bytes([0x62, i])}])
        burst.append([t0 + n + draw(st.integers(0, 3)), {"t": "alive"}])
        if mine != "mine":
            burst.append([t0 + n + 5, {"t": "diag", "p": b"\x62\xff\xee"}])
        unsolicited = burst
        program = [o for o in program if o[0] != "write"][:2] + [["sleep", 1.1001]] * draw(st.integers(0, 1)) + [["read", 1.3701] for _ in range(draw(st.integers(1, 6)))]
        if mine != "other":
            program += [["read", 0.3701] for _ in range(n)]
        reactions = []
    slow = 0.0
    if not reactions == [] and draw(st.integers(0, 9)) == 0:
        # a large diagnostic message (a TransferData block) to a gateway that reads slowly, alive checks arriving meanwhile: the
        # message and the alive-check responses are each intact on the wire
        slow = 0.0301
        size = draw(st.sampled_from([5000, 16384, 20000, 40000, 70000]))
        t0 = draw(st.integers(0, 3))
        program = [["sleep", 0.0501]] * draw(st.integers(0, 1)) + [["write", bytes([0x36, 0x01]) + bytes(range(256)) * (size // 256)]] + [["read", 1.3701]]
        reactions = [[[draw(st.sampled_from([5, 10, 30])), {"t": "ack", "echo": draw(st.sampled_from(["full", "partial", "empty"])), "n": 3}]]]
        unsolicited = [[t0 + 2 * i, {"t": "alive"}] for i in range(draw(st.integers(1, 8)))]
    slow_all = False
    if not slow and reactions != [] and draw(st.integers(0, 11)) == 0:
        # a gateway that takes the request off the connection slowly and acknowledges it within the acknowledgement time counted
        # from the hand-over - or just too late
        slow_all, slow = True, draw(st.sampled_from([0.5001, 1.2001]))
        late = draw(st.integers(0, 3)) == 0
        ticks = int(round((slow + ACK_TIME * (1.2 if late else draw(st.sampled_from([0.6, 0.9, 0.97])))) / 0.01))
        program = [["write", bytes([0x10]) + draw(st.binary(min_size=1, max_size=8))], ["read", 0.3701]]
        reactions = [[[ticks, {"t": "ack", "echo": "full", "n": 3}]]]
        unsolicited = []
    return {"src": src, "tgt": tgt, "ver": draw(st.sampled_from([2, 3, 3, 1])), "program": program, "reactions": reactions,
            "unsolicited": unsolicited, "splits": draw(st.lists(st.integers(0, 200), max_size=8)), "slow_drain": slow, "slow_all": slow_all}


class SlowWriter(MemWriter):
    """A gateway that takes its time to read: after a large write() the stream is above its high-water mark and drain() suspends."""

    drain_delay = 0.0
    slow_min = 4096
    _big = False

    def write(self, data: bytes) -> None:
        self._big = self._big or len(data) >= self.slow_min
        super().write(data)

    async def drain(self) -> None:
        if self._big and self.drain_delay:
            self._big = False
            await asyncio.sleep(self.drain_delay)
        await super().drain()


def run_case(case: dict[str, Any]) -> dict[str, Any]:
    from gallia.transports import TargetURI
    from gallia.transports.doip import DoIPConfig, DoIPConnection, DoIPTransport

    src, tgt, ver = case["src"], case["tgt"], case["ver"]
    ops: list[OpRecord] = []
    box: dict[str, Any] = {}

    async def go() -> None:
        loop = asyncio.get_event_loop()
        reader = asyncio.StreamReader()
        wire = Wire(reader, case["splits"])
        box["wire"] = wire
        client_writes: list[tuple[float, bytes]] = []
        alive_replies: list[tuple[float, bytes]] = []
        box["alive_replies"] = alive_replies

        outbuf = bytearray()

        def on_write(data: bytes) -> None:
            # the gateway reads a byte stream: frames are taken off it as they become complete, however many write() calls
            # the client has used for them
            outbuf.extend(data)
            while len(outbuf) >= 8 and "out_of_sync" not in box:
                v, iv, ptype, ln = struct.unpack("!BBHL", bytes(outbuf[:8]))
                if v ^ iv != 0xFF or ptype not in (0x8001, 0x0008, 0x0005, 0x0007):
                    box["out_of_sync"] = f"header {bytes(outbuf[:8]).hex()} after {len(client_writes)} diagnostic message(s) and {len(alive_replies)} other frame(s)"
                    return
                if len(outbuf) < 8 + ln:
                    return
                b = bytes(outbuf[:8 + ln])
                del outbuf[:8 + ln]
                frame_out(ptype, b)

        def frame_out(ptype: int, b: bytes) -> None:
            if ptype == 0x8001:
                k = len(client_writes)
                req = b[12:]
                client_writes.append((loop.time(), b))
                if k < len(case["reactions"]):
                    for d, fr in case["reactions"][k]:
                        wire.emit(d, enc(fr, src, tgt, ver, req), {"frame": fr})
            else:
                alive_replies.append((loop.time(), b))

        writer = SlowWriter(on_write)
        writer.drain_delay = case.get("slow_drain") or 0.0
        if case.get("slow_all"):
            writer.slow_min = 0
        for t, fr in case["unsolicited"]:
            wire.emit(t, enc(fr, src, tgt, ver, None), {"frame": fr})
        conn = DoIPConnection(reader, writer, src, tgt, ver)  # type: ignore[arg-type]
        tr = DoIPTransport(TargetURI(f"doip://192.0.2.1:13400?src_addr={src}&target_addr={tgt}"), 13400,
                           DoIPConfig(src_addr=str(src), target_addr=str(tgt), protocol_version=str(ver)), conn)
        box["conn"] = conn
        await run_program(tr, case["program"], ops, drain_reads=12, drain_timeout=4.0701)
        box["t_end"] = loop.time()
        # give late alive checks their 0.5 s
        await asyncio.sleep(ALIVE_TIME + 0.01)
        box["closed"] = conn._is_closed
        wire.closed = True
        try:
            await conn.close()
        except Exception:  # noqa: BLE001
            pass

    status, val, dur = run_virtual(go, max_virtual=1e4)
    return {"status": status, "val": val, "ops": ops, "box": box, "dur": dur}


@st.composite
def eof_case_s(draw) -> dict[str, Any]:
    """The gateway acknowledges a request, forwards 1-3 diagnostic messages (other frames in between) and then closes the
    connection; the client reads only after all of that has arrived."""
    src, tgt = draw(st.sampled_from([(0x0E00, 0x001D), (0x0001, 0xFFFF)]))
    n = draw(st.integers(1, 3))
    frames: list[dict[str, Any]] = [{"t": "ack", "echo": "full", "n": 1}]
    for i in range(n):
        if draw(st.integers(0, 2)) == 0:
            frames.append(draw(st.sampled_from([{"t": "alive"}, {"t": "diag-other", "a": 1, "b": 2, "pair": "rand", "p": b"\x01"}, {"t": "unknown", "pt": 0x4002, "p": b"\x00"}])))
        frames.append({"t": "diag", "p": bytes([0x62, i]) + draw(st.binary(max_size=5))})
    return {"kind": "eof", "src": src, "tgt": tgt, "ver": draw(st.sampled_from([2, 3])), "frames": frames, "pause": draw(st.sampled_from([0.0501, 0.5001, 1.1001])),
            "splits": draw(st.lists(st.integers(0, 120), max_size=4)), "request": bytes([0x22]) + draw(st.binary(min_size=2, max_size=4))}


def check_eof(case: dict[str, Any]) -> list[tuple[str, str]]:
    from gallia.transports import TargetURI
    from gallia.transports.doip import DoIPConfig, DoIPConnection, DoIPTransport

    src, tgt, ver = case["src"], case["tgt"], case["ver"]
    got: list[tuple[str, Any]] = []

    async def go() -> None:
        loop = asyncio.get_event_loop()
        reader = asyncio.StreamReader()
        wire = Wire(reader, case["splits"])

        def on_write(b: bytes) -> None:
            if len(b) >= 8 and struct.unpack("!H", b[2:4])[0] == 0x8001:
                for i, fr in enumerate(case["frames"]):
                    wire.emit(1 + i, enc(fr, src, tgt, ver, b[12:]), {"frame": fr})
                loop.call_later((len(case["frames"]) + 3) * 0.01, reader.feed_eof)

        writer = MemWriter(on_write)
        conn = DoIPConnection(reader, writer, src, tgt, ver)  # type: ignore[arg-type]
        tr = DoIPTransport(TargetURI(f"doip://192.0.2.1:13400?src_addr={src}&target_addr={tgt}"), 13400,
                           DoIPConfig(src_addr=str(src), target_addr=str(tgt), protocol_version=str(ver)), conn)
        await tr.write(case["request"], timeout=None)
        await asyncio.sleep(case["pause"])
        for _ in range(len(case["frames"]) + 1):
            try:
                got.append(("ok", await tr.read(timeout=2.3701)))
            except TimeoutError:
                got.append(("timeout", None))
                break
            except ConnectionError as e:
                got.append(("connerr", repr(e)))
                break
            except Exception as e:  # noqa: BLE001
                got.append((f"exc:{type(e).__name__}", repr(e)))
                break
        wire.closed = True
        try:
            await conn.close()
        except Exception:  # noqa: BLE001
            pass

    status, val, _ = run_virtual(go, max_virtual=1e4)
    if status != "ok":
        return [(f"C06/eof/run-{status}", f"{val!r}; reads so far {got}")]
    want = [("ok", fr["p"]) for fr in case["frames"] if fr["t"] == "diag"]
    have = [(k, v) for k, v in got if k == "ok"]
    if have != want:
        return [("C06/read/received-messages-lost-at-end-of-stream", f"gateway sent {[w[1].hex() for w in want]} and closed; after a pause of {case['pause']} s the reads gave "
                 f"{[(k, v.hex() if isinstance(v, bytes) else v) for k, v in got]}")]
    if not got or got[-1][0] != "connerr":
        return [("C06/read/end-of-stream-not-reported", f"reads gave {[(k, v.hex() if isinstance(v, bytes) else v) for k, v in got]}")]
    return []


def check(case: dict[str, Any]) -> list[tuple[str, str]]:
    if case.get("kind") == "activation":
        return check_activation(case)
    if case.get("kind") == "eof":
        return check_eof(case)
    r = run_case(case)
    if r["status"] != "ok":
        return [(f"C06/run-{r['status']}", f"program did not finish: {r['status']} {r['val']!r}; ops {[(o.kind, o.outcome) for o in r['ops']]}")]
    src, tgt, ver = case["src"], case["tgt"], case["ver"]
    if "out_of_sync" in r["box"]:
        return [("C06/outgoing-stream/not-a-sequence-of-frames", f"the gateway cannot parse what the client sent: {r['box']['out_of_sync']}; {_desc(case)}")]
    wire: Wire = r["box"]["wire"]
    frames = sorted(wire.frames, key=lambda f: f.seq)
    cls = [classify(f.raw, src, tgt) for f in frames]
    out: list[tuple[str, str]] = []
    # ---- reference demultiplexer
    consumed: set[int] = set()
    closed_at: float | None = None
    for oi, op in enumerate(r["ops"]):
        if op.kind == "sleep":
            continue
        t0 = op.t0
        if op.kind == "write":
            req = bytes(op.arg)
            if case.get("slow_all"):
                t0 = t0 + case["slow_drain"]  # the acknowledgement time runs from the hand-over of the request
            deadline = t0 + ACK_TIME
            exp = ("connerr", deadline)
            for i, (f, c) in enumerate(zip(frames, cls)):
                if i in consumed or f.t_done >= deadline:
                    continue
                if c["k"] in ("ack", "nack") and c["mine"] and (len(c["echo"]) == 0 or c["echo"] == req[: len(c["echo"])]):
                    consumed.add(i)
                    if c["k"] == "ack" or c["code"] == 6:
                        exp = ("ok", max(t0, f.t_done))
                    else:
                        exp = ("connerr", max(t0, f.t_done))
                    break
            what = f"write #{oi} {req.hex()[:24]} at t={t0:.3f}"
            if op.outcome != exp[0]:
                phase = _phase(frames, cls, consumed, t0, exp[1])
                out.append((f"C06/write/{op.outcome.split(':')[0]}-instead-of-{exp[0]}/{phase}", f"{what}: got {op.outcome} {op.detail} at t={op.t1:.3f}, reference says {exp[0]} at t={exp[1]:.3f}; {_desc(case)}"))
                return out
            if abs(op.t1 - exp[1]) > 2e-3:
                phase = _phase(frames, cls, consumed, t0, exp[1])
                out.append((f"C06/write/{exp[0]}-at-wrong-time/{phase}", f"{what}: finished at t={op.t1:.3f}, reference says t={exp[1]:.3f}; {_desc(case)}"))
                return out
            if exp[0] == "connerr" and exp[1] == deadline:
                closed_at = op.t1
                break
            if exp[0] == "connerr":
                continue
        else:
            deadline = t0 + op.arg
            exp2: tuple[str, float, bytes | None] = ("timeout", deadline, None)
            for i, (f, c) in enumerate(zip(frames, cls)):
                if i in consumed or f.t_done >= deadline:
                    continue
                if c["k"] == "diag" and c["mine"]:
                    exp2 = ("ok", max(t0, f.t_done), c["p"])
                    consumed.add(i)
                    break
            what = f"read #{oi} (timeout {op.arg}) at t={t0:.3f}"
            if op.outcome != exp2[0]:
                phase = _phase(frames, cls, consumed, t0, exp2[1])
                out.append((f"C06/read/{op.outcome.split(':')[0]}-instead-of-{exp2[0]}/{phase}", f"{what}: got {op.outcome} {op.detail} {_h(op.value)} at t={op.t1:.3f}, reference says {exp2[0]} {_h(exp2[2])} at t={exp2[1]:.3f}; {_desc(case)}"))
                return out
            if exp2[0] == "ok" and op.value != exp2[2]:
                mine = [c["p"] for c in cls if c["k"] == "diag" and c["mine"]]
                kind = "out-of-order" if op.value in mine else "fabricated"
                out.append((f"C06/read/wrong-message/{kind}", f"{what}: returned {_h(op.value)}, reference says {_h(exp2[2])}; {_desc(case)}"))
                return out
            if abs(op.t1 - exp2[1]) > 2e-3:
                phase = _phase(frames, cls, consumed, t0, exp2[1])
                out.append((f"C06/read/{exp2[0]}-at-wrong-time/{phase}", f"{what}: finished at t={op.t1:.3f}, reference says t={exp2[1]:.3f}; {_desc(case)}"))
                return out
    # ---- alive checks answered within the alive-check time, with the source address
    expect_alive = doip(ver, 0x0008, struct.pack("!H", src))
    replies = sorted(r["box"]["alive_replies"])
    t_end = closed_at if closed_at is not None else r["box"]["t_end"]
    for f, c in zip(frames, cls):
        if c["k"] != "alive" or f.t_done > t_end - 0.005:
            continue  # after, or in a tie with, the instant the client closed the connection (acknowledgement timeout)
        hit = next((x for x in replies if f.t_done - 1e-9 <= x[0] <= f.t_done + ALIVE_TIME), None)
        if hit is None:
            phase = "idle"
            for op in r["ops"]:
                if op.t0 <= f.t_done <= op.t1 and op.kind in ("read", "write"):
                    phase = "during-" + op.kind
            out.append((f"C06/alive-check/not-answered-in-time/{phase}", f"alive-check request complete at t={f.t_done:.3f}; responses at {[round(x[0], 3) for x in replies]}; {_desc(case)}"))
            return out
        if hit[1] != expect_alive:
            out.append(("C06/alive-check/wrong-response", f"response {hit[1].hex()} expected {expect_alive.hex()}"))
            return out
        replies.remove(hit)
    return out


def _phase(frames: list[Any], cls: list[dict[str, Any]], consumed: set[int], t0: float, t1: float) -> str:
    """is there an alive check between the start of the operation and its expected end? (root cause attribution)"""
    if any(c["k"] == "alive" and f.t_done <= t1 + 1e-9 for f, c in zip(frames, cls)):
        return "alive-check-before-or-during"
    return "no-alive-check"


def _h(x: Any) -> str:
    return x.hex()[:40] if isinstance(x, (bytes, bytearray)) else str(x)


def _desc(case: dict[str, Any]) -> str:
    return f"program={[(o[0], _h(o[1]) if o[0] == 'write' else o[1]) for o in case['program']]} reactions={[[(d, f['t'] + (':' + str(f.get('echo', f.get('code', ''))) if f['t'] in ('ack', 'nack') else '')) for d, f in rx] for rx in case['reactions']]} unsolicited={[(t, f['t']) for t, f in case['unsolicited']]}"


# ---------------------------------------------------------------------------------------------
# activation


def check_activation(case: dict[str, Any]) -> list[tuple[str, str]]:
    from gallia.transports.doip import DoIPTransport

    src, tgt, ver, atype, code = case["src"], case["tgt"], case["ver"], case["atype"], case["code"]
    pre = case.get("pre", [])
    answer = case.get("answer", True)
    box: dict[str, Any] = {}

    async def go() -> None:
        loop = asyncio.get_event_loop()
        reader = asyncio.StreamReader()
        wire = Wire(reader, case.get("splits", []))
        seen: list[tuple[float, bytes]] = []

        def on_write(b: bytes) -> None:
            seen.append((loop.time(), b))
            if len(seen) == 1:
                for d, fr in pre:
                    wire.emit(d, enc(fr, src, tgt, ver, None), {"frame": fr})
                if answer:
                    wire.emit(case.get("delay", 1), doip(ver, 0x0006, struct.pack("!HHBI", src, tgt, code, 0)), {"frame": {"t": "rar"}})

        writer = MemWriter(on_write)
        box["seen"] = seen

        async def fake_open(host: Any = None, port: Any = None, **kw: Any) -> Any:
            box["dial"] = (host, port)
            return reader, writer

        uri = f"doip://192.0.2.1:13400?src_addr={src:#x}&target_addr={tgt:#x}&activation_type={atype:#x}&protocol_version={ver}"
        t0 = loop.time()
        with mock.patch("asyncio.open_connection", fake_open):
            try:
                tr = await DoIPTransport.connect(uri)
                box["res"] = "ok"
                box["tr"] = tr
            except ConnectionError as e:
                box["res"] = "connerr"
                box["detail"] = repr(e)
            except TimeoutError as e:
                box["res"] = "timeout"
                box["detail"] = repr(e)
            except Exception as e:  # noqa: BLE001
                box["res"] = f"exc:{type(e).__name__}"
                box["detail"] = repr(e)
        box["dt"] = loop.time() - t0
        wire.closed = True
        if "tr" in box:
            await box["tr"].close()

    status, val, _ = run_virtual(go, max_virtual=1e3)
    ctx = f"src={src:#x} tgt={tgt:#x} ver={ver} activation_type={atype:#x} response_code={code:#x} answer={answer} pre={[f['t'] for _, f in pre]}"
    if status != "ok":
        return [(f"C06/activation/run-{status}", f"{ctx}: {val!r}")]
    out: list[tuple[str, str]] = []
    seen = box["seen"]
    expect = struct.pack("!BBHL", ver, ver ^ 0xFF, 0x0005, 7) + struct.pack("!HBI", src, atype, 0)
    first = b"".join(b for _, b in seen)[: len(expect)]
    if first != expect:
        field = "activation-type" if first[:10] == expect[:10] and first[11:] == expect[11:] else "other-field"
        out.append((f"C06/activation/request-bytes/{field}", f"{ctx}: first bytes on the wire {first.hex()}, expected {expect.hex()}"))
    # the first routing activation response on the wire decides (a "stray" one in the prelude is an answer too)
    rars = sorted([(d, i, f["code"]) for i, (d, f) in enumerate(pre) if f["t"] == "stray-rar"] + ([(case.get("delay", 1), len(pre), code)] if answer else []))
    want = "ok" if (rars and rars[0][2] == 0x10) else "connerr"
    if box["res"] != want:
        out.append((f"C06/activation/{box['res'].split(':')[0]}-instead-of-{want}", f"{ctx}: connect() -> {box['res']} {box.get('detail', '')}"))
    elif want == "connerr" and box["dt"] > ACK_TIME + 0.05:
        out.append(("C06/activation/error-too-late", f"{ctx}: connect() failed after {box['dt']:.2f} s"))
    return out


@st.composite
def activation_s(draw) -> dict[str, Any]:
    return {"kind": "activation", "src": draw(addr16), "tgt": draw(addr16), "ver": draw(st.sampled_from([1, 2, 3, 3, 0xFF, 0x7E])),
            "atype": draw(st.integers(0, 255)), "code": draw(st.one_of(st.just(0x10), st.integers(0, 255))),
            "answer": draw(st.integers(0, 9)) != 0, "delay": draw(st.sampled_from([1, 5, 50, 150, 199])),
            "pre": [[d, f] for d, f in draw(st.lists(st.tuples(st.sampled_from([1, 2, 10, 100]), frame_s(False)), max_size=2))],
            "splits": draw(st.lists(st.integers(0, 50), max_size=4))}


def nontrivial(case: dict[str, Any]) -> bool:
    if case.get("kind") == "activation":
        return case["code"] != 0x10 or bool(case["pre"]) or case["atype"] not in (0, 1)
    if case.get("kind") == "eof":
        return True
    other = any(f["t"] != "ack" for rx in case["reactions"] for _, f in rx) or bool(case["unsolicited"])
    return other or any(s % 5 for s in case["splits"])


def shards(tier: str) -> list[dict[str, Any]]:
    if tier == "quick":
        return [{"what": "demux", "n": 230} for _ in range(12)] + [{"what": "act-gen", "n": 300}, {"what": "act-grid", "types": list(range(256)), "codes": [0x10, 0x00, 0x06, 0x11]},
                                                                   {"what": "act-grid", "types": [0, 1], "codes": list(range(256))}, {"what": "act-gen", "n": 300}, {"what": "eof", "n": 150}]
    return [{"what": "demux", "n": 25000} for _ in range(12)] + [{"what": "act-gen", "n": 15000}, {"what": "eof", "n": 5000}] + \
        [{"what": "act-grid", "types": list(range(i, 256, 8)), "codes": list(range(256))} for i in range(8)]


def run_shard(spec: dict[str, Any], seed: int) -> Collector:
    col = Collector()

    def body(case: dict[str, Any]) -> None:
        res = check(case)
        if case.get("kind") == "activation":
            cl = "activation/" + ("success" if case["code"] == 0x10 and case["answer"] else "denied" if case["answer"] else "silent")
            sample: Any = case
        elif case.get("kind") == "eof":
            cl, sample = "end-of-stream-after-data", case
        else:
            kinds = sorted({f["t"] for rx in case["reactions"] for _, f in rx} | {f["t"] for _, f in case["unsolicited"]})
            cl = "demux/" + ("+".join(k for k in kinds if k in ("alive", "unknown", "nack", "diag-other")) or "plain")
            sample = {**case, "program": [[o[0], _h(o[1]) if o[0] == "write" else o[1]] for o in case["program"]]}
        col.case(str(case), nontrivial(case), cls=cl, sample=sample)
        for b, m in res:
            col.violation(b, case, m)

    w = spec["what"]
    if w == "demux":
        run_given(case_s(), body, spec["n"], seed)
    elif w == "eof":
        run_given(eof_case_s(), body, spec["n"], seed)
    elif w == "act-gen":
        run_given(activation_s(), body, spec["n"], seed)
    else:
        for t in spec["types"]:
            for c in spec["codes"]:
                body({"kind": "activation", "src": 0x0E00, "tgt": 0x001D, "ver": 3, "atype": t, "code": c, "answer": True, "delay": 1, "pre": [], "splits": []})
        col.exhaustive_parts.append(f"activation types {spec['types'][0]:#x}..{spec['types'][-1]:#x} ({len(spec['types'])}) x response codes ({len(spec['codes'])})")
    return col


def replay(witness: Any) -> list[tuple[str, str]]:
    return check(unjson(witness))


def shrink(bucket: str, witness: Any, seed: int) -> Any:
    w = unjson(witness)
    strat = activation_s() if w.get("kind") == "activation" else case_s()
    return shrink_bucket(strat, lambda c: {b for b, _ in check(c)}, bucket, seed, max_examples=1200)
