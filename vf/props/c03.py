"""C03 - Genuine replies are always accepted, foreign or stale replies always refused."""

from __future__ import annotations

from typing import Any

from hypothesis import strategies as st

from vf import refcodec
from vf.core import Collector, run_given, shrink_bucket, unjson

PROPERTY = "C03"
LEVEL = "exploration"
RULE = (
    "Pairs (request, reply bytes). Requests: every modelled request class with generated arguments (typed), the same bytes wrapped in "
    "a RawRequest (rawtyped), and RawRequests that stay raw (unmodelled services / undecodable bytes). Replies are built by the "
    "reference codec from the request: genuine positive reply (echo of sub-function / DID / routine id / block counter / memory "
    "fields, random tail), 7F sid <member code>, 7F <other sid> <any byte> in lengths 2..4, 7F sid <non-member code>, negatives "
    "of wrong length, replies whose first byte is neither 7F nor sid+0x40 (incl. valid replies of other services and the reflected "
    "request), genuine replies with exactly one echoed byte changed, genuine replies with intact echo but broken length. A reference "
    "matcher written from the statement says must-accept / must-mismatch / must-malformed (or abstains). Exhaustive over "
    "Further reply kinds: the requested sub-function with bit 7 set, nothing but the response id (typed and raw requests). "
    "UDSErrorCodes for the negative-response exception mapping. Non-trivial: pair in must-mismatch or must-malformed, or genuine "
    "with a non-empty echo. Distinct by (request bytes, reply bytes)."
)
ASSUMPTIONS = [
    "reference matcher derived from the property statement; for requests that stay raw the statement defines no echo, positive "
    "replies of the same service id are an abstention there",
    "a changed echo byte that also makes the reply undecodable may be reported as mismatch or malformed (abstention between the two)",
    "ReadMemoryByAddress/WriteMemoryByAddress are excluded from the 'broken length' class because their length IS the echoed field",
]

UNMODELLED_SIDS = [0x29, 0x83, 0x84, 0x86, 0x87, 0x24, 0x2A, 0x38, 0x01, 0x09, 0x00, 0x12, 0x3F, 0xBA, 0xC5, 0xFF]


@st.composite
def case_s(draw, only_cls: str | None = None) -> dict[str, Any]:
    kind = draw(st.sampled_from(["typed", "typed", "rawtyped", "raw"])) if only_cls is None else draw(st.sampled_from(["typed", "rawtyped"]))
    tail = draw(st.binary(min_size=0, max_size=12))
    if kind == "raw":
        if draw(st.booleans()):
            req = bytes([draw(st.sampled_from(UNMODELLED_SIDS))]) + draw(st.binary(max_size=6))
        else:
            # typed service but undecodable request bytes (too short)
            req = bytes([draw(st.sampled_from([0x22, 0x2E, 0x31, 0x14, 0x23, 0x28]))]) + draw(st.binary(max_size=1))
        cls, kw = None, None
    else:
        cls = only_cls or draw(st.sampled_from(sorted(refcodec.REQ)))
        kw = draw(refcodec.REQ[cls].strategy)
        req = refcodec.REQ[cls].encode(kw)
    sid = req[0]
    rk = draw(st.sampled_from(["genuine", "genuine", "neg-same", "neg-other", "neg-same-invalid-code", "neg-same-badlen",
                               "other-service", "other-service", "echo-changed", "echo-changed", "broken-format", "echo-other-requested",
                               "subfn-bit7", "sid-only"]))
    reply: bytes | None = None
    if rk == "echo-other-requested":
        # a reply that echoes an identifier of the request - but not the primary (first) one
        dids = refcodec.aslist(kw["data_identifiers"]) if cls == "ReadDataByIdentifierRequest" else []
        others = [d for d in dids[1:] if d != dids[0]] if dids else []
        if others:
            reply = b"\x62" + draw(st.sampled_from(others)).to_bytes(2, "big") + (tail or b"\x00")
        else:
            rk = "echo-changed"
    if rk == "genuine":
        if kind == "raw":
            # a service the codec has no classes for: the only thing that identifies a genuine positive reply is its response id;
            # what follows need not repeat the request bytes (0x2A answers with the bare id, 0x87 / 0x83 without the suppress bit)
            if req[0] in UNMODELLED_SIDS and req[0] + 0x40 <= 0xFF and req[0] + 0x40 != 0x7F:
                how = draw(st.sampled_from(["bare", "tail", "echo-without-suppress-bit", "echo-and-more"]))
                body = {"bare": b"", "tail": tail, "echo-without-suppress-bit": bytes([b & 0x7F for b in req[1:2]]) + req[2:], "echo-and-more": req[1:] + tail}[how]
                reply = bytes([req[0] + 0x40]) + body
            else:
                rk = "neg-same"
        else:
            reply = refcodec.REQ[cls].reply(kw, tail) if refcodec.REQ[cls].reply else None
            if reply is None:
                rk = "neg-same"
    if rk == "neg-same":
        reply = bytes([0x7F, sid, draw(st.sampled_from(sorted(refcodec.KNOWN_NRC - {0x78, 0x21})))])
    elif rk == "neg-other":
        other = draw(st.integers(0, 255).filter(lambda x: x != sid))
        third = draw(st.one_of(st.just(sid), st.integers(0, 255)))
        n = draw(st.sampled_from([2, 3, 3, 3, 4]))
        reply = bytes([0x7F, other, third, draw(st.integers(0, 255))])[:n]
    elif rk == "neg-same-invalid-code":
        reply = bytes([0x7F, sid, draw(st.integers(0, 255).filter(lambda x: x not in refcodec.KNOWN_NRC))])
    elif rk == "neg-same-badlen":
        reply = bytes([0x7F, sid]) + (b"" if draw(st.booleans()) else bytes([0x31, draw(st.integers(0, 255))]))
    elif rk == "other-service":
        how = draw(st.sampled_from(["random", "valid-other", "reflected", "request-sid"]))
        if how == "valid-other":
            reply = draw(refcodec.valid_response().filter(lambda b: b[0] not in (0x7F, (sid + 0x40) & 0x1FF)))
        elif how == "reflected":
            reply = req
        elif how == "request-sid":
            reply = bytes([sid]) + tail
        else:
            reply = bytes([draw(st.integers(0, 255).filter(lambda x: x != 0x7F and x != sid + 0x40))]) + tail
        if reply[0] in (0x7F, sid + 0x40):
            reply = bytes([(reply[0] + 1) % 256 if (reply[0] + 1) % 256 not in (0x7F, sid + 0x40) else (reply[0] + 2) % 256]) + reply[1:]
    elif rk == "sid-only" and kind == "raw" and sid in (0x27, 0x19, 0x31, 0x2C, 0x10, 0x11, 0x22, 0x2E, 0x2F):
        # also for a request the codec keeps as raw bytes (unknown sub-function, missing parameters)
        reply = bytes([sid + 0x40])
    elif rk in ("echo-changed", "broken-format", "subfn-bit7", "sid-only"):
        spec = refcodec.REQ[cls] if cls else None
        gen = spec.reply(kw, tail) if spec and spec.reply else None
        echo = spec.echo(kw) if spec else []
        if gen is None or not echo or sid in (0x23, 0x3D) and rk == "broken-format":
            rk = "neg-same"
            reply = bytes([0x7F, sid, 0x31])
        elif rk == "subfn-bit7" and sid in (0x10, 0x11, 0x27, 0x28, 0x3E, 0x85, 0x2C, 0x19, 0x31) and len(gen) >= 2 and gen[1] < 0x80:
            # the right service, the requested sub-function - with bit 7 set (an echo of the suppress bit): no positive response
            # carries that bit
            reply = gen[:1] + bytes([gen[1] | 0x80]) + gen[2:]
        elif rk == "sid-only" and sid in (0x10, 0x11, 0x27, 0x28, 0x3E, 0x85, 0x2C, 0x19, 0x31, 0x22, 0x2E, 0x2F):
            # nothing but the response service id, where the positive response has mandatory parameters
            reply = gen[:1]
        elif rk in ("subfn-bit7", "sid-only"):
            rk, reply = "genuine", gen
        elif rk == "echo-changed":
            i = draw(st.sampled_from(echo))
            if i >= len(gen):
                rk, reply = "genuine", gen
            else:
                if i == 1 and sid in (0x10, 0x11, 0x27, 0x28, 0x3E, 0x85, 0x2C, 0x19, 0x31):
                    nv = draw(st.integers(0, 0x7F).filter(lambda x: x != gen[i]))
                else:
                    nv = draw(st.integers(0, 255).filter(lambda x: x != gen[i]))
                reply = gen[:i] + bytes([nv]) + gen[i + 1:]
        else:
            cut_min = max(echo) + 1
            if draw(st.booleans()) and len(gen) > cut_min:
                reply = gen[: draw(st.integers(cut_min, len(gen) - 1))]
            else:
                reply = gen + draw(st.binary(min_size=1, max_size=5))
    assert reply is not None
    return {"kind": kind, "cls": cls, "kw": kw, "req": req, "reply_kind": rk, "reply": reply}


def expected(case: dict[str, Any]) -> set[str]:
    """Set of allowed outcomes out of {"accept", "mismatch", "malformed"}."""
    rk, req, reply, kind = case["reply_kind"], case["req"], case["reply"], case["kind"]
    sid = req[0]
    if rk == "genuine":
        return {"accept"}
    if rk == "neg-same":
        return {"accept"}
    if rk == "neg-other":
        return {"mismatch"}
    if rk in ("neg-same-invalid-code", "neg-same-badlen"):
        return {"malformed"}
    if rk == "other-service":
        return {"mismatch"}
    if rk == "echo-other-requested":
        return {"mismatch"}
    if rk == "echo-changed":
        k, _ = refcodec.ref_decode_response(reply)
        if k != "malformed":
            # abstain between the two error kinds when gallia itself cannot decode the changed reply
            from gallia.services.uds.core import service

            try:
                service.UDSResponse.parse_dynamic(reply)
            except Exception:  # noqa: BLE001
                k = "malformed"
        return {"mismatch"} if k != "malformed" else {"mismatch", "malformed"}
    if rk == "broken-format":
        return {"accept", "malformed"}
    if rk in ("subfn-bit7", "sid-only"):
        return {"malformed", "mismatch"}  # refused, one way or the other
    raise AssertionError(rk)


def check(case: dict[str, Any]) -> list[tuple[str, str]]:
    from gallia.services.uds.core import service
    from gallia.services.uds.core.exception import MalformedResponse, RequestResponseMismatch
    from gallia.services.uds.helpers import parse_pdu

    kind, req, reply, rk = case["kind"], case["req"], case["reply"], case["reply_kind"]
    if kind == "typed":
        try:
            request = getattr(service, case["cls"])(**case["kw"])
            if request.pdu != req:
                return []  # C01's subject
        except Exception:  # noqa: BLE001
            return []
    else:
        request = service.RawRequest(req)
    if kind == "raw" and not isinstance(service.UDSRequest.parse_dynamic(req), service.RawRequest):
        return []  # generator meant an undecodable request; it decodes, so expectations do not apply
    exp = expected(case)
    tag = case["cls"] if (case["cls"] and rk in ("genuine", "echo-changed", "broken-format", "echo-other-requested", "subfn-bit7", "sid-only")) else kind
    try:
        r = parse_pdu(reply, request)
        outcome = "accept"
    except RequestResponseMismatch:
        outcome = "mismatch"
    except MalformedResponse:
        outcome = "malformed"
    except Exception as e:  # noqa: BLE001
        return [(f"C03/{rk}/{tag}/raises-{type(e).__name__}", f"parse_pdu({reply.hex()[:60]}, {_rq(case)}) raised {type(e).__name__}: {e}")]
    out: list[tuple[str, str]] = []
    if outcome not in exp:
        out.append((f"C03/{rk}/{tag}/{outcome}-instead-of-{'|'.join(sorted(exp))}",
                    f"parse_pdu({reply.hex()[:60]}, {_rq(case)}) -> {outcome}, expected {sorted(exp)}"))
        return out
    if outcome == "accept":
        if r.trigger_request is not request:
            out.append((f"C03/{rk}/{tag}/trigger-request-not-set", f"{reply.hex()[:60]} to {_rq(case)}"))
        if rk == "genuine":
            try:
                if r.pdu != reply:
                    out.append((f"C03/genuine/{tag}/reply-bytes-changed", f"{reply.hex()[:60]} -> {r.pdu.hex()[:60]}"))
            except Exception:  # noqa: BLE001
                pass  # C02's subject
        if rk == "neg-same":
            if not isinstance(r, service.NegativeResponse) or int(r.response_code) != reply[2] or r.request_service_id != req[0]:
                out.append((f"C03/neg-same/{tag}/wrong-negative-response", f"{reply.hex()} to {_rq(case)} -> {r!r}"))
    # The same request object used again for another PDU (a fuzzer that rewrites one RawRequest, a loop that bumps an identifier):
    # what was learnt about the old bytes must not be applied to the new ones.
    if not out and isinstance(request, service.RawRequest) and req[0] != 0x3E:
        try:
            request.pdu = b"\x3e\x00"
        except Exception:  # noqa: BLE001
            return out
        for rep2, want in ((b"\x7e\x00", "accept"), (bytes([(req[0] + 0x40) & 0xFF]) + req[1:3] + b"\x00", "mismatch"), (bytes([0x7F, req[0], 0x31]), "mismatch")):
            if rep2[0] in (0x7E, 0x7F) and want == "mismatch" and rep2[:2] != bytes([0x7F, req[0]]):
                continue  # (old sid + 0x40 happens to be TesterPresent's response id or the negative-response id)
            if rep2[:2] == bytes([0x7F, req[0]]) and req[0] == 0x3E:
                continue
            try:
                parse_pdu(rep2, request)
                got = "accept"
            except RequestResponseMismatch:
                got = "mismatch"
            except MalformedResponse:
                got = "malformed"
            except Exception as e:  # noqa: BLE001
                got = f"raises-{type(e).__name__}"
            if got != want:
                out.append((f"C03/request-object-reused/{got}-instead-of-{want}", f"RawRequest first used for {req.hex()[:20]}, then rewritten to 3e00: parse_pdu({rep2.hex()}) -> {got}"))
                break
    return out


def _rq(case: dict[str, Any]) -> str:
    return f"{case['kind']}:{case['req'].hex()[:40]}"


def nontrivial(case: dict[str, Any]) -> bool:
    rk = case["reply_kind"]
    if rk == "genuine":
        return bool(case["cls"] and refcodec.REQ[case["cls"]].echo(case["kw"]))
    return rk != "neg-same"


def shards(tier: str) -> list[dict[str, Any]]:
    if tier == "quick":
        return [{"what": "gen", "n": 2200} for _ in range(14)] + [{"what": "nrc"}]
    return [{"what": "gen", "n": 60000} for _ in range(15)] + [{"what": "nrc"}]


def run_shard(spec: dict[str, Any], seed: int) -> Collector:
    col = Collector()
    if spec["what"] == "nrc":
        from gallia.services.uds.core import service
        from gallia.services.uds.core.constants import UDSErrorCodes
        from gallia.services.uds.core.exception import UnexpectedNegativeResponse
        from gallia.services.uds.helpers import parse_pdu

        for code in UDSErrorCodes:
            for sid in (0x10, 0x22, 0x31, 0x86):
                req = service.RawRequest(bytes([sid, 0x01, 0x02]))
                reply = bytes([0x7F, sid, int(code)])
                col.case(("nrc", sid, int(code)), True, cls="nrc-exhaustive", sample={"req": req.pdu.hex(), "reply": reply.hex()})
                try:
                    r = parse_pdu(reply, req)
                    exc = UnexpectedNegativeResponse.parse_dynamic(req, r)  # type: ignore[arg-type]
                    if type(exc).RESPONSE_CODE != code or exc.response is not r:
                        col.violation(f"C03/nrc-exception/wrong-class/{code.name}", {"code": int(code)}, f"{code.name} -> {type(exc).__name__}")
                except Exception as e:  # noqa: BLE001
                    col.violation(f"C03/nrc-exception/raises/{type(e).__name__}", {"code": int(code), "sid": sid}, f"7F {sid:02x} {int(code):02x}: {type(e).__name__}: {e}")
        col.exhaustive_parts.append("every UDSErrorCodes member x 4 service ids: negative reply accepted and mapped to the exception class of that code")
        return col

    def body(case: dict[str, Any]) -> None:
        res = check(case)
        col.case((case["req"].hex(), case["reply"].hex()), nontrivial(case), cls=f"{case['kind']}/{case['reply_kind']}",
                 sample={"kind": case["kind"], "cls": case["cls"], "req": case["req"].hex()[:60], "reply_kind": case["reply_kind"],
                         "reply": case["reply"].hex()[:60], "expected": sorted(expected(case))})
        for b, m in res:
            col.violation(b, case, m)

    run_given(case_s(), body, spec["n"], seed)
    return col


def replay(witness: Any) -> list[tuple[str, str]]:
    w = unjson(witness)
    if "code" in w:
        from gallia.services.uds.core import service
        from gallia.services.uds.core.constants import UDSErrorCodes
        from gallia.services.uds.core.exception import UnexpectedNegativeResponse
        from gallia.services.uds.helpers import parse_pdu

        req = service.RawRequest(bytes([w.get("sid", 0x10), 1, 2]))
        try:
            r = parse_pdu(bytes([0x7F, req.pdu[0], w["code"]]), req)
            exc = UnexpectedNegativeResponse.parse_dynamic(req, r)  # type: ignore[arg-type]
            if int(type(exc).RESPONSE_CODE) != w["code"]:
                return [(f"C03/nrc-exception/wrong-class/{UDSErrorCodes(w['code']).name}", type(exc).__name__)]
        except Exception as e:  # noqa: BLE001
            return [(f"C03/nrc-exception/raises/{type(e).__name__}", repr(e))]
        return []
    return check(w)


def shrink(bucket: str, witness: Any, seed: int) -> Any:
    w = unjson(witness)
    if "code" in w:
        return None
    strat = case_s(only_cls=w["cls"]) if w.get("cls") else case_s()
    return shrink_bucket(strat, lambda c: {b for b, _ in check(c)}, bucket, seed, max_examples=3000)
