"""C02 - Decoded UDS responses expose the received fields and re-encode to the same bytes."""

from __future__ import annotations

import itertools
from typing import Any

from hypothesis import strategies as st

from vf import refcodec
from vf.core import Collector, run_given, shrink_bucket, unjson

PROPERTY = "C02"
LEVEL = "exploration"
RULE = (
    "Byte strings: (a) valid responses of every modelled service from the reference encoder; (b) exhaustive: every byte string "
    "of length <= 3 (thorough) / <= 2 plus sampled length 3 (quick) whose first byte is sid+0x40 for every UDSIsoServices member or 0x7F; "
    "(c) mutated neighbours of (a): truncation at every offset, extension by 1..8 bytes, single bit flips, duplicated record groups, "
    "disagreeing length-format nibbles; (d) thorough: coverage-guided atheris campaign on parse_dynamic with the same oracle. "
    "Oracle: if UDSResponse.parse_dynamic returns r then r.pdu == input; if r is typed, its public attributes equal the values the "
    "Also: a second decoding of the same bytes after the first result was modified by its holder, and the decoded class used directly (from_pdu) on the same bytes under a foreign first byte (rejected or at least not rewritten). "
    "reference decoder reads at the ISO byte positions. Raising is a clean rejection. Non-trivial: accepted as a typed (non-raw) "
    "response. Distinct by bytes."
)
ASSUMPTIONS = [
    "reference decoder written from the ISO 14229-1 response layouts (vf/refcodec.py)",
    "ReadDataByIdentifier responses with several DIDs cannot be split without ECU knowledge (stated in gallia's source): the first "
    "DID and the remaining bytes are compared",
]


def _attrs(r: Any) -> dict[str, Any]:
    return {k: v for k, v in vars(r).items() if not k.startswith("_") and k != "trigger_request"}


def check_bytes(b: bytes) -> tuple[list[tuple[str, str]], str]:
    """returns (violations, outcome) with outcome in {"rejected", "raw", "typed"}"""
    from gallia.services.uds.core import service

    try:
        r = service.UDSResponse.parse_dynamic(b)
    except Exception:  # noqa: BLE001  clean rejection (parse_pdu turns it into MalformedResponse)
        return [], "rejected"
    cname = type(r).__name__
    base = cname
    for c in type(r).__mro__:
        if c.__name__.startswith("_ReadDTCType") or c.__name__ in ("RoutineControlResponse", "_RequestUpOrDownloadResponse",
                                                                   "_DynamicallyDefineDataIdentifierResponse"):
            base = c.__name__
            break
    out: list[tuple[str, str]] = []
    try:
        p = r.pdu
    except Exception as e:  # noqa: BLE001
        return [(f"C02/{base}/pdu-raises/{type(e).__name__}", f"parse_dynamic({b.hex()}) -> {cname}; .pdu raised {type(e).__name__}: {e}")], "typed"
    if p != b:
        kind = "shorter" if len(p) < len(b) else "longer" if len(p) > len(b) else "changed"
        if base == "_ReadDTCType1Response" and len(b) >= 3 and (len(b) - 3) % 4 == 0:
            recs = [b[i:i + 4] for i in range(3, len(b), 4)]
            dtcs = [r_[:3] for r_ in recs]
            last = {r_[:3]: r_ for r_ in recs}
            # the shape of the recorded finding: records are kept in a dict keyed by DTC, so a repeated DTC collapses to its
            # last status at the position of its first occurrence; anything else that is lossy gets its own bucket
            if len(set(dtcs)) < len(dtcs) and p == b[:3] + b"".join(last[d] for d in dict.fromkeys(dtcs)):
                kind = "duplicate-dtc-collapsed"
        return [(f"C02/{base}/not-lossless/{kind}", f"parse_dynamic({b.hex()[:80]}) -> {cname}; re-encodes to {p.hex()[:80]}")], "typed"
    if isinstance(r, service.RawResponse):
        return [], "raw"
    kind, f = refcodec.ref_decode_response(b)
    if kind == "unmodelled":
        return [(f"C02/{base}/typed-but-unmodelled", f"{b.hex()[:60]} -> {cname}, reference decoder has no layout for it")], "typed"
    if kind == "malformed":
        # accepted although the reference rules call it malformed; lossless, so not "silently normalised": counted, not a violation
        return [], "typed-lenient"
    a = _attrs(r)
    assert f is not None
    for k, v in f.items():
        if k == "ext":
            # reportDTCExtDataRecordByDTCNumber: [recnum][data...] (single record modelled)
            recs = a.get("dtc_ext_data_records")
            flat = b"".join(bytes([n]) + d for n, d in (recs or {}).items())
            if flat != v:
                out.append((f"C02/{base}/field/dtc_ext_data_records", f"{b.hex()[:60]}: ext records {recs!r} != bytes {v.hex()[:40]}"))
            continue
        if k not in a:
            out.append((f"C02/{base}/field-missing/{k}", f"{b.hex()[:60]}: {cname} exposes no attribute {k}"))
            continue
        got = a[k]
        if k == "dtc_and_status_record" and isinstance(v, list):
            got = list(got.items()) if isinstance(got, dict) else got
        if k == "response_code" or k == "dtc_format_identifier":
            got = int(got)
        if isinstance(got, tuple):
            got = tuple(got)
            v = tuple(v)
        if got != v:
            out.append((f"C02/{base}/field/{k}", f"{b.hex()[:60]}: {k} = {got!r}, ISO position holds {v!r}"))
    if not out and sum(b) % 3 == 1 and b[0] != 0x7F:
        # the class the bytes were decoded into, used directly (as the discovery scanners do), takes only its own service's replies:
        # the same bytes under another first byte are rejected - or at least not rewritten into this service's reply
        other = bytes([(b[0] + 1) & 0xFF if (b[0] + 1) & 0xFF != 0x7F else 0x41]) + b[1:]
        try:
            r2 = type(r).from_pdu(other)
            if r2.pdu != other:
                out.append((f"C02/{base}/static-decoding-rewrites-foreign-reply", f"{cname}.from_pdu({other.hex()[:60]}) -> object that re-encodes to {r2.pdu.hex()[:60]}"))
        except Exception:  # noqa: BLE001  clean rejection
            pass
    if not out and sum(b) % 3 == 0:
        # what a decoded response exposes depends on the received bytes only - not on what the holder of an earlier decoding of
        # the same bytes has done to that object meanwhile
        for k, v in list(vars(r).items()):
            try:
                if isinstance(v, bool) or k == "trigger_request":
                    continue
                if isinstance(v, int):
                    setattr(r, k, (v + 1) & 0xFF)
                elif isinstance(v, (bytes, bytearray)):
                    setattr(r, k, b"\xde\xad" + bytes(v))
                elif isinstance(v, list):
                    v.append(v[0] if v else 1)
                elif isinstance(v, dict):
                    v.clear()
            except Exception:  # noqa: BLE001
                pass
        try:
            again = service.UDSResponse.parse_dynamic(b)
            if again.pdu != b or type(again) is not type(r):
                out.append((f"C02/{base}/decoding-depends-on-earlier-results", f"second parse_dynamic({b.hex()[:60]}) -> {type(again).__name__} {again.pdu.hex()[:60]} "
                            "after the first result had been modified by its holder"))
        except Exception as e:  # noqa: BLE001
            out.append((f"C02/{base}/decoding-depends-on-earlier-results", f"second parse_dynamic({b.hex()[:60]}) raised {type(e).__name__}: {e}"))
    return out, "typed"


def check(case: dict[str, Any]) -> list[tuple[str, str]]:
    return check_bytes(case["bytes"])[0]


# ---------------------------------------------------------------------------------------------
# generators


@st.composite
def mutated(draw) -> bytes:
    b = draw(refcodec.valid_response())
    how = draw(st.sampled_from(["trunc", "extend", "flip", "dup", "nibble", "none"]))
    if how == "trunc" and len(b) > 1:
        return b[: draw(st.integers(1, len(b) - 1))]
    if how == "extend":
        return b + draw(st.binary(min_size=1, max_size=8))
    if how == "flip":
        i = draw(st.integers(0, len(b) - 1))
        bit = draw(st.integers(0, 7))
        return b[:i] + bytes([b[i] ^ (1 << bit)]) + b[i + 1:]
    if how == "dup" and len(b) >= 7:
        # duplicate a 4-byte group (DTC records) or the tail
        i = draw(st.integers(1, len(b) - 4))
        return b[: i + 4] + b[i: i + 4] + b[i + 4:]
    if how == "nibble" and len(b) >= 2:
        return b[:1] + bytes([draw(st.integers(0, 255))]) + b[2:]
    return b


def first_bytes() -> list[int]:
    from gallia.services.uds.core.constants import UDSIsoServices

    return sorted({(int(s) + 0x40) & 0xFF for s in UDSIsoServices if s != UDSIsoServices.NegativeResponse} | {0x7F})


def shards(tier: str) -> list[dict[str, Any]]:
    fb = first_bytes()
    if tier == "quick":
        out = [{"what": "exh", "first": fb[i::4], "maxlen": 2, "sample3": 1500} for i in range(4)]
        out += [{"what": "valid", "n": 2500} for _ in range(4)]
        out += [{"what": "mut", "n": 2500} for _ in range(6)]
        return out
    out = [{"what": "exh", "first": [f], "maxlen": 3, "sample3": 0} for f in fb]
    out += [{"what": "valid", "n": 12000} for _ in range(6)]
    out += [{"what": "mut", "n": 14000} for _ in range(10)]
    out += [{"what": "atheris", "runs": 300000, "corpus": c} for c in ("empty", "valid")]
    return out


def run_shard(spec: dict[str, Any], seed: int) -> Collector:
    col = Collector()

    def body_bytes(b: bytes, cls: str) -> None:
        res, outcome = check_bytes(b)
        col.case(b.hex(), outcome.startswith("typed"), cls=f"{cls}/{outcome}", sample={"bytes": b.hex()[:120], "outcome": outcome})
        for bk, m in res:
            col.violation(bk, {"bytes": b}, m)

    w = spec["what"]
    if w == "exh":
        for f in spec["first"]:
            body_bytes(bytes([f]), "exhaustive")
            for n in range(1, spec["maxlen"]):
                for t in itertools.product(range(256), repeat=n):
                    body_bytes(bytes((f,) + t), "exhaustive")
            col.exhaustive_parts.append(f"all byte strings of length <= {spec['maxlen']} starting with 0x{f:02x}")
        if spec["sample3"]:
            run_given(st.tuples(st.sampled_from(spec["first"]), st.binary(min_size=2, max_size=2)).map(lambda t: bytes([t[0]]) + t[1]),
                      lambda b: body_bytes(b, "sampled-len3"), spec["sample3"], seed)
        return col
    if w == "valid":
        run_given(refcodec.valid_response(), lambda b: body_bytes(b, "valid"), spec["n"], seed)
        return col
    if w == "mut":
        run_given(mutated(), lambda b: body_bytes(b, "mutated"), spec["n"], seed)
        return col
    if w == "atheris":
        from vf.fuzz import run_atheris

        run_atheris(col, "c02", spec, seed)
        return col
    raise AssertionError(w)


def fuzz_one(data: bytes, col: Collector) -> None:
    if not data:
        return
    res, outcome = check_bytes(data)
    col.case(data.hex(), outcome.startswith("typed"), cls=f"atheris/{outcome}")
    for bk, m in res:
        col.violation(bk, {"bytes": data}, m)


def fuzz_corpus(kind: str) -> list[bytes]:
    if kind == "empty":
        return []
    import random

    from hypothesis import given, seed as hseed

    from vf.core import hyp_settings

    out: list[bytes] = []

    @hseed(7)
    @hyp_settings(200)
    @given(refcodec.valid_response())
    def t(b: bytes) -> None:
        out.append(b)

    t()
    random.Random(1).shuffle(out)
    return out[:120]


def replay(witness: Any) -> list[tuple[str, str]]:
    return check(unjson(witness))


def shrink(bucket: str, witness: Any, seed: int) -> Any:
    r = shrink_bucket(st.one_of(mutated(), refcodec.valid_response(), st.binary(min_size=1, max_size=12)),
                      lambda b: {x for x, _ in check_bytes(b)[0]}, bucket, seed, max_examples=4000)
    return None if r is None else {"bytes": r}
