"""C12 - A database-backed virtual ECU replays the recorded ECU's answers."""

from __future__ import annotations

import asyncio
import dataclasses
import shutil
import sqlite3
import tempfile
from pathlib import Path
from typing import Any

from hypothesis import strategies as st

from vf import vecu
from vf.core import Collector, run_given, shrink_bucket, unjson
from vf.scan import MemECUTransport

PROPERTY = "C12"
LEVEL = "exploration"
RULE = (
    "Record phase: an ECU client with a real DBHandler talks to RandomUDSServer(seed, parameters) through an in-memory transport; the "
    "history is a list of abstract ops resolved against the model (change to an offered / not offered session, requestSeed then sendKey "
    "with the right or a wrong key, ECU reset, reads incl. F186, writes, routines, tester present, repeats of the previous request, "
    "suppress-bit variants). A database holds 1..3 such runs with different seeds, target URLs, ECU names (ecu / address.ecu filled by the "
    "harness as the docs prescribe) and properties_pre. Half of the recorded ECUs are a variant whose answers depend on the security level, which is mute "
    "for 1-2 requests after a reset, (even seeds) answers reads of F190 with a well-formed reply for F191 (a reply the client reports as mismatch) and "
    "(every third seed) answers although the suppress bit is set. Replay phase: DBUDSServer(db, ecu name and/or properties) behind "
    "UDSServerTransport.handle_request from the default state, same request sequence. Oracle: the reply bytes captured on the recording "
    "wire are reproduced one by one, silence where nothing was received, whichever other runs the database contains (other ECUs, a second address of the same ECU, an earlier or later scan of the same ECU with other properties). Requests without "
    "A quarter of the cases keep a second connection to the database file open from before the recording until after the replay (rows still in the write-ahead log). "
    "reply in a non-default state are excluded from the main search (recorded known finding) and counted. Non-trivial: the history has a "
    "state change and a repeated request with different answers. Distinct by (seeds, histories, selection)."
)
ASSUMPTIONS = [
    "client and recorded ECU track session/security level identically (checked per step: the client's logged state must equal the recorded server's state)",
    "security seeds are whatever the recorded ECU sent; the key is the seed (the virtual ECU's rule) or a wrong one",
]


@dataclasses.dataclass
class Props:
    software_version: str = "1.0"
    variant: int = 0

    def to_json(self, indent: Any = None) -> str:
        import json

        return json.dumps(dataclasses.asdict(self), sort_keys=True)


@st.composite
def run_s(draw, idx: int) -> dict[str, Any]:
    return {"seed": draw(st.integers(0, 500)), "params": draw(st.sampled_from([{"p_session": 0.5, "optional_sessions": [2, 3], "p_service": 0.6, "p_identifier": 0.5, "p_correct_payload_format": 0.8},
                                                                                 {"p_session": 1.0, "optional_sessions": [2, 3, 4], "p_service": 1.0, "p_sub_function": 0.2, "p_identifier": 1.0, "p_correct_payload_format": 1.0},
                                                                                 # every sub-function offered: all reset types, all session changes and security levels are answered positively
                                                                                 {"p_session": 1.0, "optional_sessions": [2, 3], "p_service": 1.0, "p_sub_function": 1.0, "p_identifier": 0.5},
                                                                                 {}])),
            "ops": draw(st.lists(st.one_of(vecu.op, vecu.op, st.sampled_from([("dsc_offered", 1, False), ("dsc_offered", 2, False), ("reset", 3, False), ("reset", 4, False), ("seedkey", 0, False), ("raw", b"\x22\xf1\x90")]),
                                           st.sampled_from([("reset", 0, False), ("reset", 3, False), ("reset", 4, False), ("dsc_offered", 1, False), ("dsc_offered", 2, False), ("reboot", 0, 0), ("reboot", 1, 1), ("reboot", 2, 2), ("tp", False), ("f186",), ("raw", b"\x22\xf1\x90"), ("unlock", 0, "f186", False),
                                                                               ("raw", b"\x22\xf1\x90"), ("repeat",), ("overlap", 0), ("overlap", 1), ("overlap", 2)])), min_size=1, max_size=30)),
            "flaky": draw(st.booleans()), "name": f"ecu{idx}", "url": f"tcp-lines://192.0.2.{idx + 1}:20162",
            "props": {"software_version": draw(st.sampled_from(["1.0", "2.1"])) + f"-{idx}", "variant": idx}}


@st.composite
def case_s(draw) -> dict[str, Any]:
    n = draw(st.sampled_from([1, 1, 2, 3]))
    runs = [draw(run_s(i)) for i in range(n)]
    if n > 1 and draw(st.booleans()):
        # the same tester script against different ECUs: identical requests with different answers in one database
        for r in runs[1:]:
            r["ops"] = runs[0]["ops"]
    if n > 1 and draw(st.integers(0, 3)) == 0:
        # ECUs behind one CAN interface: their target URIs differ in nothing but a query parameter (ISO-TP extended addressing)
        for i, r in enumerate(runs):
            r["url"] = f"isotp://vcan0?src_addr=0x6f1&dst_addr=0x654&is_extended=false&ext_address={i + 1:#x}&rx_ext_address={0x10 + i:#x}"
    target = draw(st.integers(0, n - 1))
    select = draw(st.sampled_from(["name", "props", "name+props"])) if n > 1 else draw(st.sampled_from(["name", "props", "name+props", "none"]))
    if n > 1 and draw(st.integers(0, 2)) == 0:
        # the ECU behind the first address is scanned again later (another run against the same URL, after other runs): the history
        # recorded first is the one a replay from the default state has to reproduce
        k = draw(st.integers(1, n - 1))
        runs[k]["url"], runs[k]["name"] = runs[0]["url"], runs[0]["name"]
        target = 0
        select = draw(st.sampled_from(["name", "name+props"]))
        if draw(st.booleans()):
            # ... and it is the later scan (other software version: its properties differ) that is to be replayed: name and
            # properties together single it out
            target = k
            select = draw(st.sampled_from(["name+props", "name+props", "props"]))
    if n > 1 and len({r["url"] for r in runs}) == n and draw(st.integers(0, 3)) == 0:
        # the target ECU is also reachable under a second address (a short probe was recorded there earlier): selection by ECU
        # name has to cover all addresses of that ECU
        t = draw(st.integers(1, n - 1))
        runs[0]["name"] = runs[t]["name"]
        runs[0]["ops"] = [("tp", False)]
        runs[0]["seed"], runs[0]["params"], runs[0]["flaky"] = runs[t]["seed"], runs[t]["params"], runs[t]["flaky"]
        target = t
        select = "name"
    return {"runs": runs, "target": target, "select": select, "allow_silence_in_state": False, "share_handler": n > 1 and draw(st.integers(0, 3)) == 0,
            "db_open_elsewhere": draw(st.integers(0, 3)) == 0}


def make_recorded_ecu(run: dict[str, Any]) -> Any:
    """RandomUDSServer, or a variant of it whose answers also depend on the security level and which stays silent for a
    few requests after a reset (a rebooting ECU: the same request is first unanswered, then answered)."""
    if not run.get("flaky"):
        return vecu.make_server(run["seed"], run["params"], [])
    from gallia.services.uds.core import service
    from gallia.services.uds.server import RandomUDSServer

    class RebootingLevelECU(RandomUDSServer):
        def __init__(self, *a: Any, **kw: Any) -> None:
            super().__init__(*a, **kw)
            self.mute = 0

        async def respond(self, request: Any) -> Any:
            if self.mute > 0:
                self.mute -= 1
                return None
            return await super().respond(request)

        def ecu_reset(self, request: Any) -> Any:
            r = super().ecu_reset(request)
            self.mute = 1 + self.seed % 2
            return r

        def read_data_by_identifier(self, request: Any) -> Any:
            r = super().read_data_by_identifier(request)
            if isinstance(r, service.ReadDataByIdentifierResponse):
                r.data_records[0] = bytes([self.state.security_access_level or 0]) + r.data_records[0]
                if self.seed % 2 == 0 and request.data_identifiers == [0xF190]:
                    # a well-formed answer to a different identifier: the client reports a mismatch, the bytes were received all the same
                    r = service.ReadDataByIdentifierResponse(0xF191, r.data_records[0])
            return r

    rp = RandomUDSServer.RandomnessParameters(**run["params"]) if run["params"] else None
    # every third of these ECUs ignores the suppress bit: it answers `3E 80` with `7E 00` - that reply is recorded like any other
    beh = RandomUDSServer.Behavior(default_response_if_suppress=False) if run["seed"] % 3 == 0 else None
    return RebootingLevelECU(run["seed"], rp, beh)


def _register_name(dbpath: Path, run: dict[str, Any]) -> None:
    """register the ECU name for this address, as the documentation of `vecu db` prescribes"""
    con = sqlite3.connect(dbpath)
    if con.execute("SELECT count(*) FROM ecu WHERE name = ?", (run["name"],)).fetchone()[0] == 0:
        con.execute("INSERT INTO ecu(name) VALUES(?)", (run["name"],))
    con.execute("UPDATE address SET ecu = (SELECT id FROM ecu WHERE name = ?) WHERE url = ?", (run["name"], run["url"]))
    con.commit()
    con.close()


def record_shared(dbpath: Path, runs: list[dict[str, Any]], allow_silence_in_state: bool) -> list[dict[str, Any]]:
    """All runs through ONE database handler in one process (a test bench that scans several ECUs one after the other)."""
    from gallia.db.handler import DBHandler

    outs: list[dict[str, Any]] = []

    async def go_all() -> None:
        db = DBHandler(dbpath)
        await db.connect()
        try:
            for i, run in enumerate(runs):
                outs.append(await _record_async(dbpath, run, allow_silence_in_state, db, first=(i == 0)))
        finally:
            await db.disconnect()

    asyncio.run(go_all())
    for run in runs:
        _register_name(dbpath, run)
    return outs


def record(dbpath: Path, run: dict[str, Any], allow_silence_in_state: bool) -> dict[str, Any]:
    out = asyncio.run(_record_async(dbpath, run, allow_silence_in_state, None, True))
    _register_name(dbpath, run)
    return out


async def _record_async(dbpath: Path, run: dict[str, Any], allow_silence_in_state: bool, shared_db: Any, first: bool) -> dict[str, Any]:
    from gallia.command.base import BaseCommandConfig
    from gallia.db.handler import DBHandler
    from gallia.services.uds.core import service
    from gallia.services.uds.ecu import ECU

    out: dict[str, Any] = {"transcript": [], "excluded": 0, "state_mismatch": None}

    if True:
        from datetime import UTC, datetime

        server = make_recorded_ecu(run)
        await server.setup()
        model = vecu.model_dict(server)
        wire: list[tuple[int, bytes, bytes | None]] = []
        tr = MemECUTransport(server, wire, 100000)
        tr.latency = 0.0  # an exchange takes at least one scheduling round: other users of the client can queue up behind it
        db = shared_db if shared_db is not None else DBHandler(dbpath)
        if shared_db is None:
            await db.connect()
        try:
            if shared_db is None or first:
                await db.insert_run_meta("vf.c12", BaseCommandConfig(), datetime.now(UTC).astimezone(), None)
            await db.insert_scan_run(run["url"])
            await db.insert_scan_run_properties_pre(Props(**run["props"]))  # type: ignore[arg-type]
            ecu = ECU(tr, timeout=0.02, max_retry=0)  # type: ignore[arg-type]
            ecu.db_handler = db
            prev: bytes | None = None
            last_seed: tuple[int, bytes] | None = None
            flat = [e for o in run["ops"] for e in vecu.expand(tuple(o))]
            for o in flat:
                if o[0] == "overlap":
                    # two users of the client at once: a session change and the tester-present ping of the background worker; the
                    # client serialises them (session change first), each is logged with the state it was sent in
                    b1 = vecu.resolve(("dsc_offered", o[1], False), model, server.state.session, prev, last_seed)
                    n0 = len(wire)
                    await asyncio.gather(ecu.request(service.RawRequest(b1)), ecu.request(service.RawRequest(b"\x3e\x00")), return_exceptions=True)
                    for sess_, data_, reply_ in wire[n0:]:
                        out["transcript"].append((data_, reply_, sess_ != 1))
                        prev = data_
                        last_seed = vecu.next_last_seed(last_seed, data_, reply_)
                    continue
                b = vecu.resolve(tuple(o), model, server.state.session, prev, last_seed)
                if not b:
                    continue
                default_state = server.state.session == 1 and server.state.security_access_level is None
                suppress_bit = b[0] in vecu.SUBFN_SIDS and len(b) >= 2 and b[1] >= 0x80
                will_be_silent = suppress_bit and server.behavior.default_response_if_suppress
                if suppress_bit and b[0] in (0x10, 0x11, 0x27):
                    # a suppressed session change / reset / key: the ECU changes state without the client being able to notice;
                    # the statement's presupposition (both sides track the state identically) cannot hold
                    out["excluded_state_change"] = out.get("excluded_state_change", 0) + 1
                    continue
                if will_be_silent and not default_state and not allow_silence_in_state:
                    out["excluded"] += 1
                    continue
                cs = (ecu.state.session, ecu.state.security_access_level)
                ss = (server.state.session, server.state.security_access_level)
                if cs != ss and out["state_mismatch"] is None:
                    out["state_mismatch"] = f"before {b.hex()}: client {cs}, recorded ECU {ss}"
                n0 = len(wire)
                try:
                    await ecu.request(service.RawRequest(b))
                except Exception:  # noqa: BLE001
                    pass
                reply = wire[n0][2] if len(wire) > n0 else None
                out["transcript"].append((b, reply, not default_state))
                prev = b
                last_seed = vecu.next_last_seed(last_seed, b, reply)
        finally:
            if shared_db is None:
                await db.disconnect()
            await server.teardown()
    return out


def replay_db(dbpath: Path, name: str | None, props: dict[str, Any] | None, requests: list[bytes]) -> list[Any]:
    from gallia.services.uds.server import DBUDSServer, UDSServerTransport
    from gallia.transports import TargetURI

    res: list[Any] = []

    async def go() -> None:
        srv = DBUDSServer(dbpath, name, props)
        await srv.setup()
        try:
            st_ = UDSServerTransport(srv, TargetURI("tcp-lines://127.0.0.1:1"))
            for b in requests:
                try:
                    r, _ = await st_.handle_request(b)
                    res.append(r)
                except Exception as e:  # noqa: BLE001
                    res.append(f"EXC {type(e).__name__}: {e}")
                    break
        finally:
            await srv.teardown()

    asyncio.run(go())
    return res


def check(case: dict[str, Any]) -> list[tuple[str, str]]:
    d = Path(tempfile.mkdtemp(prefix="vf-c12."))
    try:
        db = d / "db.sqlite"
        recs = []
        hold = None
        if case.get("db_open_elsewhere"):
            # some other program (a database browser, a second gallia) has the database file open all the time: the recorded rows
            # then still sit in the write-ahead log when the virtual ECU is started
            from gallia.db.handler import DBHandler

            async def pre() -> None:
                h = DBHandler(db)
                await h.connect()
                await asyncio.sleep(0.01)  # (a handler closed before its writer task ever ran raises CancelledError: not a flow gallia has)
                await h.disconnect()

            asyncio.run(pre())
            hold = sqlite3.connect(db)
            hold.execute("SELECT count(*) FROM scan_result").fetchall()
        if case.get("share_handler"):
            try:
                recs = record_shared(db, case["runs"], case.get("allow_silence_in_state", False))
            except Exception as e:  # noqa: BLE001
                return [(f"C12/record-raises/{type(e).__name__}", f"{type(e).__name__}: {e}")]
        else:
            for run in case["runs"]:
                try:
                    recs.append(record(db, run, case.get("allow_silence_in_state", False)))
                except Exception as e:  # noqa: BLE001
                    return [(f"C12/record-raises/{type(e).__name__}", f"{type(e).__name__}: {e}")]
        t = case["target"]
        run, rec = case["runs"][t], recs[t]
        sel = case["select"]
        name = run["name"] if "name" in sel else None
        props = run["props"] if "props" in sel else None
        out: list[tuple[str, str]] = []
        if rec["state_mismatch"]:
            out.append(("C12/presupposition/client-and-ecu-state-differ", rec["state_mismatch"]))
            return out
        reqs = [b for b, _, _ in rec["transcript"]]
        try:
            got = replay_db(db, name, props, reqs)
        finally:
            if hold is not None:
                hold.close()
    finally:
        shutil.rmtree(d, ignore_errors=True)
    ctx = f"runs={[(r['seed'], r['name']) for r in case['runs']]} replay of {run['name']} selected by {sel}"
    case["_excluded"] = sum(r["excluded"] for r in recs)
    for i, ((b, exp, _nd), g) in enumerate(zip(rec["transcript"], got)):
        if isinstance(g, str):
            out.append((f"C12/replay-raises/{g.split()[1].rstrip(':')}", f"{ctx}: step {i} request {b.hex()[:40]}: {g}"))
            return out
        if g != exp:
            silent_before = [nd for _, r, nd in rec["transcript"][:i] if r is None]
            if silent_before and silent_before[-1]:
                # shape of the recorded finding: the last unanswered request was made in a non-default state
                # (the replaying server resets its state on silence, the recording client and ECU did not)
                kind = "after-unanswered-request-in-non-default-state"
            elif silent_before:
                kind = "after-unanswered-request-in-default-state"
            else:
                kind = "other-run-leaks" if len(case["runs"]) > 1 else "single-run"
            out.append((f"C12/replay-differs/{kind}", f"{ctx}: step {i} request {b.hex()[:40]}: recorded {None if exp is None else exp.hex()[:40]}, replayed {None if g is None else g.hex()[:40]}; "
                        f"history so far {[(x.hex()[:12], None if y is None else y.hex()[:12]) for x, y, _ in rec['transcript'][max(0, i - 4):i]]}"))
            return out
    if len(got) != len(rec["transcript"]):
        out.append(("C12/replay-incomplete", f"{ctx}: {len(got)} of {len(rec['transcript'])} steps"))
    return out


def nontrivial(case: dict[str, Any]) -> bool:
    ops = case["runs"][case["target"]]["ops"]
    return any(o[0] in ("dsc_offered", "unlock", "reset") for o in ops) and any(o[0] in ("repeat", "seedkey", "unlock") for o in ops)


def shards(tier: str) -> list[dict[str, Any]]:
    return [{"n": 45 if tier == "quick" else 2200} for _ in range(16)]


def run_shard(spec: dict[str, Any], seed: int) -> Collector:
    col = Collector()

    def body(case: dict[str, Any]) -> None:
        res = check(case)
        col.case(str(case), nontrivial(case), cls=f"runs{len(case['runs'])}/{case['select']}",
                 sample={"runs": [{"seed": r["seed"], "name": r["name"], "n_ops": len(r["ops"])} for r in case["runs"]], "target": case["target"], "select": case["select"]})
        if case.get("_excluded"):
            col.exclude("C12/replay-differs/after-unanswered-request-in-non-default-state", case["_excluded"])
        for b, m in res:
            col.violation(b, {k: v for k, v in case.items() if not k.startswith("_")}, m)

    run_given(case_s(), body, spec["n"], seed)
    return col


def replay(witness: Any) -> list[tuple[str, str]]:
    w = unjson(witness)
    for r in w["runs"]:
        r["ops"] = [tuple(o) for o in r["ops"]]
    return check(w)


def shrink(bucket: str, witness: Any, seed: int) -> Any:
    return shrink_bucket(case_s(), lambda c: {b for b, _ in check(c)}, bucket, seed, max_examples=60)
