"""C08 - Connection loss surfaces as a bounded-time error and the next attempt recovers."""

from __future__ import annotations

import asyncio
import struct
from binascii import hexlify, unhexlify
from typing import Any
from unittest import mock

from hypothesis import strategies as st

from vf.core import Collector, run_given, shrink_bucket, unjson
from vf.vtime import MemWriter, run_virtual

PROPERTY = "C08"
LEVEL = "fault_enumeration"
RULE = (
    "For each transport in {tcp-lines, unix-lines, DoIP, HSFZ} a canonical exchange (connect [, routing activation], write request, "
    "[acknowledgement], reply; request/reply bytes generated) is run against a scripted peer whose byte stream towards the client "
    "is cut at EVERY byte offset (exhaustive per exchange: inside and between frames) with cut kind in {EOF, reset, silence}, with "
    "and without a caller timeout, at transport level (connect/write/read ops) and at client level (UDSClient.request with retries, "
    "ECU.wait_for_ecu) with a peer that accepts connections again after a generated restart delay (asyncio.open_connection / "
    "open_unix_connection patched, virtual time). Oracle: the pending operation ends by caller timeout + acknowledgement time with "
    "TimeoutError, a ConnectionError or (line transports) an empty read; it never blocks forever after EOF/reset and never returns "
    "bytes that are not a complete message the peer sent; with retries the client returns the correct reply through a reconnect; "
    "wait_for_ecu returns True; close() twice / after loss does not raise; a peer that stays away for longer than one request's reconnect attempts is reached again by the next request; a second read without any caller timeout after reply + end-of-stream ends at once. Non-trivial: cut strictly inside the exchange. Distinct "
    "by (transport, level, exchange, offset, kind, timeout)."
)
ASSUMPTIONS = [
    "kernel behaviour is represented by what asyncio's stream layer turns it into: feed_eof (FIN), set_exception + failing writer (RST), nothing (silence)",
    "silence without a caller timeout is excluded (blocking is then correct); at client level silence on the line transports is excluded "
    "because nothing can detect the loss there",
    "the restarted peer accepts connections before the client's first reconnect attempt for transports that try only once",
]

REPLY_TAIL = bytes([0x11, 0x22, 0x33, 0x44, 0x55])
ACK_TIME = {"tcp-lines": 0.0, "unix-lines": 0.0, "doip": 2.0, "hsfz": 1.0}
SRC, TGT = 0x0E00, 0x001D
HS, HD = 0xF4, 0x10


def doip(ptype: int, payload: bytes) -> bytes:
    return struct.pack("!BBHL", 3, 0xFC, ptype, len(payload)) + payload


def hsfz(cword: int, body: bytes) -> bytes:
    return struct.pack("!IH", len(body), cword) + body


class PeerConn:
    """One accepted connection. Generates the protocol's responses to client writes and applies the byte budget / cut."""

    def __init__(self, peer: "Peer", idx: int, budget: int | None, kind: str) -> None:
        self.peer = peer
        self.idx = idx
        self.reader = asyncio.StreamReader(limit=2**17)
        self.writer = MemWriter(self.on_write)
        self.budget = budget
        self.kind = kind
        self.cut_done = False
        self.buf = b""
        self.sent = b""
        self.requests = 0
        self.mute = False  # a gateway that accepts the TCP connection while it is still booting and answers nothing yet

    def respond(self, data: bytes) -> None:
        if self.mute:
            return
        loop = asyncio.get_event_loop()
        loop.call_later(0.01, self.deliver, data)

    def deliver(self, data: bytes) -> None:
        if self.cut_done:
            return
        if self.budget is None:
            self._feed(data)
            return
        part = data[: self.budget]
        self.budget -= len(part)
        if part:
            self._feed(part)
        if len(part) < len(data) or (self.budget == 0 and self.peer.cut_at_boundary):
            # the loss is a separate event, one millisecond after the last bytes: the client task has processed those bytes
            # and is waiting again (set_exception() on a StreamReader nobody waits on would be swallowed by asyncio itself)
            asyncio.get_event_loop().call_later(0.001, self.cut)

    def _feed(self, b: bytes) -> None:
        try:
            self.reader.feed_data(b)
            self.sent += b
        except AssertionError:
            pass

    def cut(self) -> None:
        if self.cut_done:
            return
        self.cut_done = True
        self.peer.cut_time = asyncio.get_event_loop().time()
        if self.kind == "eof":
            try:
                self.reader.feed_eof()
            except Exception:  # noqa: BLE001
                pass
        elif self.kind == "late-eof":
            # silence first; the peer (a hung process that is finally killed) closes the connection a good second later
            asyncio.get_event_loop().call_later(1.1, self._late_eof)  # = in the back-off that follows the 1 s request timeout
        elif self.kind == "reset":
            self.reader.set_exception(ConnectionResetError("peer reset"))
            self.writer.fail = ConnectionResetError("peer reset")
            self.writer.closed_exc = ConnectionResetError("peer reset")  # asyncio: wait_closed() of a reset connection raises
        # silence: nothing

    def _late_eof(self) -> None:
        try:
            self.reader.feed_eof()
        except Exception:  # noqa: BLE001
            pass

    def on_write(self, b: bytes) -> None:
        p = self.peer.proto
        self.buf += b
        if p in ("tcp-lines", "unix-lines"):
            while b"\n" in self.buf:
                line, self.buf = self.buf.split(b"\n", 1)
                req = unhexlify(line.strip())
                self.requests += 1
                self.peer.requests.append((self.idx, req))
                self.respond(b"".join(hexlify(x) + b"\n" for x in self.peer.replies_for(req, self.idx)))
        elif p == "doip":
            while len(self.buf) >= 8:
                _, _, ptype, ln = struct.unpack("!BBHL", self.buf[:8])
                if len(self.buf) < 8 + ln:
                    break
                body, self.buf = self.buf[8:8 + ln], self.buf[8 + ln:]
                if ptype == 0x0005:
                    self.respond(doip(0x0006, struct.pack("!HHBI", SRC, TGT, 0x10, 0)))
                elif ptype == 0x8001:
                    req = body[4:]
                    self.requests += 1
                    self.peer.requests.append((self.idx, req))
                    self.respond(doip(0x8002, struct.pack("!HHB", TGT, SRC, 0) + req) +
                                 b"".join(doip(0x8001, struct.pack("!HH", TGT, SRC) + x) for x in self.peer.replies_for(req, self.idx)))
        elif p == "hsfz":
            while len(self.buf) >= 6:
                ln, cw = struct.unpack("!IH", self.buf[:6])
                if len(self.buf) < 6 + ln:
                    break
                body, self.buf = self.buf[6:6 + ln], self.buf[6 + ln:]
                if cw == 1:
                    req = body[2:]
                    self.requests += 1
                    self.peer.requests.append((self.idx, req))
                    self.respond(hsfz(2, bytes([HS, HD]) + req[:5]) + b"".join(hsfz(1, bytes([HD, HS]) + x) for x in self.peer.replies_for(req, self.idx)))


class Peer:
    def __init__(self, proto: str, cut: int | None, kind: str, restart_delay: float, cut_at_boundary: bool = True, pending: bool = False) -> None:
        self.pending = pending  # the first connection answers a read with ResponsePending before the final reply
        self.restart_mode = "refuse"  # or "mute": while restarting, the peer accepts connections but answers nothing
        self.muted: list[Any] = []
        self.proto = proto
        self.cut = cut
        self.kind = kind
        self.restart_delay = restart_delay
        self.cut_at_boundary = cut_at_boundary
        self.conns: list[PeerConn] = []
        self.requests: list[tuple[int, bytes]] = []
        self.cut_time: float | None = None
        self.refused = 0

    def replies_for(self, req: bytes, conn_idx: int) -> list[bytes]:
        final = self.reply_for(req)
        if self.pending and conn_idx == 0 and req[:1] == b"\x22":
            return [bytes([0x7F, req[0], 0x78]), final]
        return [final]

    def reply_for(self, req: bytes) -> bytes:
        if req[:1] == b"\x3e":
            return b"\x7e\x00"
        if req[:1] == b"\x22":
            return b"\x62" + req[1:3] + REPLY_TAIL
        return bytes([req[0] + 0x40]) + req[1:2]

    async def open(self, *a: Any, **kw: Any) -> Any:
        loop = asyncio.get_event_loop()
        if self.conns and (self.cut_time is None or loop.time() < self.cut_time + self.restart_delay):
            self.refused += 1
            if self.restart_mode == "mute":
                c = PeerConn(self, -1, None, self.kind)
                c.mute = True
                self.muted.append(c)
                return c.reader, c.writer
            raise ConnectionRefusedError("peer not accepting yet")
        first = not self.conns
        c = PeerConn(self, len(self.conns), self.cut if first else None, self.kind)
        self.conns.append(c)
        return c.reader, c.writer


URI = {"tcp-lines": "tcp-lines://192.0.2.1:20162", "unix-lines": "unix-lines:///tmp/vf-nonexistent.sock",
       "doip": f"doip://192.0.2.1:13400?src_addr={SRC:#x}&target_addr={TGT:#x}&activation_type=0x0",
       "hsfz": f"hsfz://192.0.2.1:6801?src_addr={HS:#x}&dst_addr={HD:#x}&ack_timeout=1000"}


def transport_cls(proto: str) -> Any:
    from gallia.transports import DoIPTransport, HSFZTransport, TCPLinesTransport
    from gallia.transports.unix import UnixLinesTransport

    return {"tcp-lines": TCPLinesTransport, "unix-lines": UnixLinesTransport, "doip": DoIPTransport, "hsfz": HSFZTransport}[proto]


def stream_len(proto: str, did: int, pending: bool = False) -> int:
    req = b"\x22" + did.to_bytes(2, "big")
    reply = b"\x62" + req[1:3] + REPLY_TAIL
    pend = b"\x7f\x22\x78"
    if proto in ("tcp-lines", "unix-lines"):
        return len(hexlify(reply)) + 1 + (len(hexlify(pend)) + 1 if pending else 0)
    if proto == "doip":
        return len(doip(0x0006, b"\0" * 9)) + len(doip(0x8002, b"\0" * 5 + req)) + len(doip(0x8001, b"\0" * 4 + reply)) + \
            (len(doip(0x8001, b"\0" * 4 + pend)) if pending else 0)
    return len(hsfz(2, b"\0\0" + req[:5])) + len(hsfz(1, b"\0\0" + reply)) + (len(hsfz(1, b"\0\0" + pend)) if pending else 0)


def run_case(case: dict[str, Any]) -> dict[str, Any]:
    proto, level = case["proto"], case["level"]
    did = case["did"]
    req_pdu = b"\x22" + did.to_bytes(2, "big")
    reply = b"\x62" + req_pdu[1:3] + REPLY_TAIL
    peer = Peer(proto, case["cut"], case["kind"], case["restart"], case.get("boundary_cut", True), bool(case.get("pending")))
    peer.restart_mode = case.get("restart_mode", "refuse")
    rec: dict[str, Any] = {"ops": []}

    async def go() -> None:
        from gallia.services.uds.core import service
        from gallia.services.uds.core.client import UDSClient
        from gallia.services.uds.ecu import ECU

        loop = asyncio.get_event_loop()
        T = case["timeout"]

        async def op(name: str, coro: Any) -> Any:
            t0 = loop.time()
            try:
                v = await coro
                rec["ops"].append([name, "ok", v if isinstance(v, (bytes, bool)) else None, t0, loop.time()])
                return v
            except TimeoutError as e:
                rec["ops"].append([name, "timeout", repr(e), t0, loop.time()])
            except ConnectionError as e:
                rec["ops"].append([name, "connerr", repr(e), t0, loop.time()])
            except Exception as e:  # noqa: BLE001
                rec["ops"].append([name, f"exc:{type(e).__name__}", repr(e), t0, loop.time()])
            return None

        cls = transport_cls(proto)
        with mock.patch("asyncio.open_connection", peer.open), mock.patch("asyncio.open_unix_connection", peer.open):
            tr = await op("connect", cls.connect(URI[proto], timeout=T))
            if tr is None or rec["ops"][-1][1] != "ok":
                return
            rec["ops"][-1][2] = None
            if level == "transport":
                await op("write", tr.write(req_pdu, timeout=T))
                if rec["ops"][-1][1] == "ok":
                    if case.get("pause_before_read"):
                        # the tester is busy for a moment: reply and end-of-stream have both arrived before it reads
                        await asyncio.sleep(case["pause_before_read"])
                    await op("read", tr.read(timeout=T))
                    if case.get("second_read") and rec["ops"][-1][1] in ("ok", "timeout"):
                        await op("read2", tr.read(timeout=T if (T is not None or case.get("read2_no_timeout")) else 3.0))
                await op("close", tr.close())
                await op("close2", tr.close())
            elif level == "client":
                # for a silent peer only the transport's acknowledgement timeout can reveal the loss: the request timeout
                # must not undercut it, and two detections may be needed (before and after the acknowledgement)
                silent = case["kind"] == "silence"
                retries = 3 if silent else case["max_retry"]
                if case.get("retry_via") == "request":
                    # the retries are asked for per request, the client's own default is "none"
                    from gallia.services.uds.core.client import UDSRequestConfig

                    cl = UDSClient(tr, timeout=3.0 if silent else 1.0, max_retry=0)
                    r = await op("request", cl.request(service.ReadDataByIdentifierRequest(did), UDSRequestConfig(max_retry=retries)))
                else:
                    cl = UDSClient(tr, timeout=3.0 if silent else 1.0, max_retry=retries)
                    r = await op("request", cl.request(service.ReadDataByIdentifierRequest(did)))
                if case.get("late_restart"):
                    # the peer stayed away for longer than this request's reconnect attempts; once it is back, the NEXT request
                    # has to get through (the first one may legitimately have ended with the connection error)
                    await asyncio.sleep(case["late_restart"])
                    r = await op("request-later", cl.request(service.ReadDataByIdentifierRequest(did)))
                rec["client_reply"] = getattr(r, "pdu", None) if r is not None else None
                await op("close", cl.transport.close())
                await op("close2", cl.transport.close())
            else:  # wait_for_ecu after a lost exchange
                ecu = ECU(tr, timeout=1.0, max_retry=0)
                await op("request", ecu.request(service.ReadDataByIdentifierRequest(did)))
                ok = await op("wait_for_ecu", ecu.wait_for_ecu(timeout=15))
                rec["wait_ok"] = ok
                r = await op("request2", ecu.request(service.ReadDataByIdentifierRequest(did)))
                rec["client_reply"] = getattr(r, "pdu", None) if r is not None else None
                await op("close", ecu.transport.close())

    status, val, dur = run_virtual(go, max_virtual=2000, cpu_budget=5.0)
    rec.update(status=status, val=val, dur=dur, peer=peer, reply=reply)
    return rec


def check(case: dict[str, Any]) -> list[tuple[str, str]]:
    r = run_case(case)
    proto, level, kind, T = case["proto"], case["level"], case["kind"], case["timeout"]
    peer: Peer = r["peer"]
    reply: bytes = r["reply"]
    ctx = f"{proto}/{level} cut={case['cut']} kind={kind} timeout={T} restart={case['restart']}: ops={[(o[0], o[1], (o[2].hex() if isinstance(o[2], bytes) else o[2]), round(o[3], 2), round(o[4], 2)) for o in r['ops']]}"
    out: list[tuple[str, str]] = []
    phase = "no-cut" if peer.cut_time is None else "cut"
    if r["status"] in ("stalled", "overrun"):
        pending = "connect" if not r["ops"] else {"connect": "write", "write": "read", "read": "read2"}.get(r["ops"][-1][0], "later")
        return [(f"C08/{proto}/{level}/blocks-forever/{kind}/{pending}", f"{ctx}: operation after these never finished ({r['status']} at t={r['dur']:.1f})")]
    if r["status"] != "ok":
        return [(f"C08/{proto}/harness-{r['status']}", f"{ctx}: {r['val']!r}")]
    lines = proto in ("tcp-lines", "unix-lines")
    full_reply_sent = any(_contains_reply(proto, c.sent, reply) for c in peer.conns)
    for name, res, val, t0, t1 in r["ops"]:
        if res.startswith("exc:"):
            out.append((f"C08/{proto}/{level}/{name}-raises-{res[4:]}/{kind}", f"{ctx}"))
            return out
        if name in ("read", "read2") and res == "ok":
            if val == b"" and lines:
                continue
            if val != reply or not full_reply_sent:
                out.append((f"C08/{proto}/{level}/fabricated-data/{kind}", f"{ctx}: read returned {val.hex() if isinstance(val, bytes) else val}, peer's complete reply is {reply.hex()} (fully sent: {full_reply_sent})"))
                return out
        if level == "transport" and name in ("connect", "write", "read", "read2"):
            if name == "read2" and T is None and not case.get("read2_no_timeout"):
                continue  # issued with its own 3 s timeout after a successful read: ending by timeout is fine
            limit = (T if T is not None else 0.0) + ACK_TIME[proto] + 0.1
            if T is None and kind in ("eof", "reset") and peer.cut_time is not None:
                limit = max(0.0, peer.cut_time - t0) + ACK_TIME[proto] + 0.1
            elif T is None:
                limit = 1e9
            if t1 - t0 > limit:
                out.append((f"C08/{proto}/{level}/{name}-too-late/{kind}", f"{ctx}: {name} took {t1 - t0:.2f} s, bound {limit:.2f} s"))
                return out
        if name in ("close", "close2") and res != "ok":
            out.append((f"C08/{proto}/{level}/{name}-raises/{kind}", f"{ctx}"))
            return out
    if level in ("client", "wait") and r["ops"] and r["ops"][0][0] == "connect" and r["ops"][0][1] != "ok":
        return out  # the very first connection attempt failed: there is no client whose recovery could be observed
    if level == "client" and case["max_retry"] == 0:
        # no retry left: the loss has to surface as a timeout / connection error (checked above: no other exception), never as data
        lost = peer.cut_time is not None and not _contains_reply(proto, peer.conns[0].sent, reply)
        last = next((o for o in reversed(r["ops"]) if o[0] == "request"), None)
        if lost and last is not None and last[1] == "ok":
            out.append((f"C08/{proto}/client/fabricated-data/{kind}", f"{ctx}: the reply never left the peer, the client returned {r.get('client_reply')!r}"))
        if not lost and r.get("client_reply") != reply:
            out.append((f"C08/{proto}/client/reply-lost-without-loss/{kind}", f"{ctx}"))
        return out
    if level == "client" and kind == "late-eof":
        return out  # only boundedness and "no invented data" are asked of this one (how many attempts it takes is not prescribed)
    if level in ("client", "wait"):
        lost = peer.cut_time is not None and not _contains_reply(proto, peer.conns[0].sent, reply)
        if level == "wait":
            if r.get("wait_ok") is not True:
                out.append((f"C08/{proto}/wait/wait_for_ecu-failed/{kind}", f"{ctx}"))
                return out
        if r.get("client_reply") != reply:
            last = next((o for o in reversed(r["ops"]) if o[0].startswith("request")), None)
            out.append((f"C08/{proto}/{level}/no-recovery/{kind}/{(last or ['', '?'])[1]}", f"{ctx}: expected reply {reply.hex()} after reconnect; connections={len(peer.conns)} refused={peer.refused}"))
            return out
        if lost and len(peer.conns) < 2:
            out.append((f"C08/{proto}/{level}/reply-without-reconnect/{kind}", f"{ctx}"))
    return out


def _contains_reply(proto: str, sent: bytes, reply: bytes) -> bool:
    if proto in ("tcp-lines", "unix-lines"):
        return hexlify(reply) + b"\n" in sent
    if proto == "doip":
        return doip(0x8001, struct.pack("!HH", TGT, SRC) + reply) in sent
    return hsfz(1, bytes([HD, HS]) + reply) in sent


PROTOS = ["tcp-lines", "unix-lines", "doip", "hsfz"]


def enumerate_cases(did: int, level: str, restart: float, max_retry: int, protos: list[str] | None = None) -> list[dict[str, Any]]:
    cases = []
    for proto in protos or PROTOS:
        n = stream_len(proto, did)
        for cut in list(range(0, n + 1)) + [None]:
            for kind in ("eof", "reset", "silence"):
                tos: list[float | None] = [1.5] if level == "transport" else [1.0]
                if level == "transport" and kind != "silence":
                    tos.append(None)
                for T in tos:
                    if level != "transport" and kind == "silence" and proto in ("tcp-lines", "unix-lines"):
                        continue
                    if level == "wait" and kind == "silence":
                        continue  # wait_for_ecu pings with 0.5 s timeouts: a silent connection is never declared dead
                    # DoIP keeps trying to reconnect for 10 s: let its peer stay away for longer
                    # (up to just before the end of that window: 9.55 s)
                    rs = {0.0: 0.0, 0.05: 1.0, 0.1: 3.0, 0.12: 6.45, 0.15: 9.55}.get(restart, restart) if proto == "doip" else min(restart, 0.1)
                    cases.append({"proto": proto, "level": level, "did": did, "cut": cut, "kind": kind, "timeout": T, "restart": rs,
                                  "max_retry": max_retry, "second_read": True, "retry_via": "request" if (level == "client" and (cut or 0) % 2 == 1) else "client"})
                    if proto == "doip" and level == "client" and kind != "silence" and 0 < rs <= 6.5 and (cut or 0) % 3 == 0:
                        # the restarting gateway already accepts TCP connections but does not answer the routing activation yet
                        cases.append(dict(cases[-1], restart_mode="mute"))
        if level == "transport":
            # the complete reply followed by end-of-stream, read only after both have arrived: what was received is delivered first
            cases.append({"proto": proto, "level": level, "did": did, "cut": n, "kind": "eof", "timeout": 1.5, "restart": 0.0,
                          "max_retry": max_retry, "second_read": True, "pause_before_read": 0.5})
            # ... and read once more without any caller timeout: the end of the stream is known, the read must not wait for ever
            cases.append(dict(cases[-1], timeout=None, read2_no_timeout=True))
        if level == "client":
            # the peer hangs (silence) and is closed only after the request has timed out - in the back-off before the next attempt
            for cut in (0, n // 2):
                cases.append({"proto": proto, "level": level, "did": did, "cut": cut, "kind": "late-eof", "timeout": 1.0, "restart": 0.05,
                              "max_retry": max_retry, "second_read": True, "retry_via": "client"})
        if level == "client" and proto in ("tcp-lines", "unix-lines"):
            # the lines transports try to reconnect once per retry: a peer that stays away for 1 s outlasts the request; the request
            # after that (peer back) must recover
            for cut in range(0, n + 1):
                for kind in ("eof", "reset"):
                    cases.append({"proto": proto, "level": level, "did": did, "cut": cut, "kind": kind, "timeout": 1.0, "restart": 1.0,
                                  "max_retry": max_retry, "second_read": True, "late_restart": 2.0, "retry_via": "client"})
        if level == "client":
            # the same exchange with a ResponsePending in front of the final reply: every cut point once more, with the retries
            # the case asks for and with none left (the loss then has to surface as the error the statement names)
            n2 = stream_len(proto, did, True)
            for cut in range(n - (n2 - n) if proto in ("tcp-lines", "unix-lines") else n - (n2 - n) - 8, n2 + 1):
                for kind in ("eof", "reset"):
                    for mr in (max_retry, 0):
                        cases.append({"proto": proto, "level": level, "did": did, "cut": max(0, cut), "kind": kind, "timeout": 1.0,
                                      "restart": {0.0: 0.0, 0.05: 1.0, 0.1: 3.0, 0.12: 6.45, 0.15: 9.55}.get(restart, restart) if proto == "doip" else min(restart, 0.1),
                                      "max_retry": mr, "second_read": True, "pending": True, "retry_via": "request" if max(0, cut) % 2 == 0 else "client"})
    return cases


@st.composite
def exchange_s(draw) -> dict[str, Any]:
    return {"did": draw(st.integers(1, 0xFFFF)), "level": draw(st.sampled_from(["transport", "transport", "client", "wait"])),
            "restart": draw(st.sampled_from([0.0, 0.05, 0.1, 0.12, 0.15])), "max_retry": draw(st.sampled_from([1, 2, 3]))}


def nontrivial(case: dict[str, Any]) -> bool:
    return case["cut"] is not None and 0 < case["cut"] < stream_len(case["proto"], case["did"], bool(case.get("pending")))


def shards(tier: str) -> list[dict[str, Any]]:
    n = 4 if tier == "quick" else 100
    out = []
    for level in ("transport", "transport", "client", "client", "wait", "wait"):
        for proto_group in (["tcp-lines", "unix-lines"], ["doip"], ["hsfz"]):
            out.append({"n": n, "level": level, "protos": proto_group})
    return out[:16] if tier == "quick" else out


def run_shard(spec: dict[str, Any], seed: int) -> Collector:
    col = Collector()

    def body(ex: dict[str, Any]) -> None:
        ex = dict(ex, level=spec["level"])
        for case in enumerate_cases(ex["did"], ex["level"], ex["restart"], ex["max_retry"], spec["protos"]):
            res = check(case)
            col.case((case["proto"], case["level"], case["did"], case["cut"], case["kind"], case["timeout"], case["restart"], case["max_retry"], bool(case.get("pending")), case.get("retry_via"), case.get("restart_mode"), case.get("pause_before_read"), case.get("late_restart"), case.get("read2_no_timeout")),
                     nontrivial(case), cls=f"{case['proto']}/{case['level']}/{case['kind']}" + ("/no-timeout" if case["timeout"] is None else "")
                     + ("/after-pending" + ("/no-retry-left" if case["max_retry"] == 0 else "") if case.get("pending") else ""), sample=case)
            for b, m in res:
                col.violation(b, case, m)
        col.exhaustive_parts.append(f"exchange did={ex['did']:#x} level={ex['level']} {spec['protos']}: every cut offset x 3 cut kinds")

    run_given(exchange_s(), body, spec["n"], seed)
    return col


def replay(witness: Any) -> list[tuple[str, str]]:
    return check(unjson(witness))
