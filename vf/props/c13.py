"""C13 - The virtual ECU answers by the ISO 14229-1 default response rules."""

from __future__ import annotations

from typing import Any

from hypothesis import strategies as st

from vf import vecu
from vf.core import Collector, run_given, shrink_bucket, unjson

PROPERTY = "C13"
LEVEL = "exploration"
RULE = (
    "A case is (seed, randomness parameters, subset of the nine behaviour switches turned off, request history of abstract ops "
    "resolved against the generated model: change to an offered / arbitrary session, every sid with short payloads, offered "
    "service x offered sub-function, structured valid requests from the reference codec, requestSeed/sendKey pairs, resets, F186 "
    "reads, tester present, repeats; suppress-bit variants). Exhaustive sweeps: sid 0..255 x {no payload, every single byte} in "
    "the default session and in one non-default session of a few models. A reference chain written from the statement (service "
    "unknown -> 0x11 / 0x7F, missing sub-function -> 0x13, unknown sub-function -> 0x12 / 0x7E (RoutineControl exempt), not "
    "well-formed per the reference layouts -> 0x13, in this order) predicts the exact reply where a default rule decides, otherwise "
    "only structure; suppression and session/security state are tracked by a reference state machine after every step. "
    "Non-trivial: the request hits a default rule in a non-default session, or a suppress / state-change clause. Distinct by "
    "(model, state, request, switches)."
)
ASSUMPTIONS = [
    "the generated model (server.services) is the ground truth for what the ECU offers; the reference chain is my reading of ISO 14229-1 "
    "general server response behaviour",
    "with a switch off, the reply is only predicted when a remaining default rule decides; otherwise only 'does not raise, well-formed'",
    "handlers of RoutineControl / WriteDataByIdentifier / InputOutputControlByIdentifier may answer 0x13 by design (p_correct_payload_format)",
]


@st.composite
def case_s(draw, with_switches: bool = True) -> dict[str, Any]:
    off: list[str] = []
    if with_switches and draw(st.integers(0, 2)) == 0:
        off = draw(st.lists(st.sampled_from(vecu.SWITCHES), unique=True, min_size=1, max_size=4))
    return {"seed": draw(st.one_of(st.integers(0, 30), st.integers(0, 2**32))), "params": draw(vecu.params_s()), "off": sorted(off),
            "ops": draw(st.lists(vecu.op, min_size=1, max_size=25))}


def run_case(case: dict[str, Any], col: Collector | None = None) -> list[tuple[str, str]]:
    out: list[tuple[str, str]] = []
    try:
        d = vecu.Driver(case["seed"], case["params"], case["off"])
    except Exception as e:  # noqa: BLE001
        return [(f"C13/setup-raises/{type(e).__name__}", f"seed={case['seed']} params={case['params']}: {type(e).__name__}: {e}")]
    try:
        ref = vecu.RefState()
        off = set(case["off"])
        flat = [e for o in case["ops"] for e in (vecu.expand(tuple(o)) if o and o[0] != "bytes" else [o])]
        for step, o in enumerate(flat):
            if isinstance(o, (list, tuple)) and o and o[0] == "idle":
                if d.idle(o[1]):
                    ref.session, ref.level = 1, None  # S3 timeout: back to the default session, locked
                continue
            if isinstance(o, (list, tuple)) and o and o[0] == "bytes":
                b = o[1]
            else:
                b = vecu.resolve(tuple(o), d.model, ref.session, d.prev, d.last_seed, d.seen_seed)
            if not b:
                continue
            res = check_step(d, ref, b, off, step, case, col)
            out += res
            if any("/raises/" in bk or "state" in bk for bk, _ in res):
                break  # after an exception or a state divergence later steps are not comparable
    finally:
        d.close()
    return out


def check_step(d: vecu.Driver, ref: vecu.RefState, b: bytes, off: set[str], step: int, case: dict[str, Any],
               col: Collector | None) -> list[tuple[str, str]]:
    out: list[tuple[str, str]] = []
    sid = b[0]
    last_seed = d.last_seed
    exp = vecu.ref_expect(d.model, ref, b, off)
    # sendKey outcome is determined by the previous exchange
    if exp["reply"] == "ANY" and exp.get("wf") and sid == 0x27 and (b[1] & 0x7F) % 2 == 0:
        if last_seed is not None and last_seed[0] + 1 == (b[1] & 0x7F) and b[2:] == last_seed[1]:
            exp = dict(exp, reply=bytes([0x67, b[1] & 0x7F]), rule="send-key-correct")
    switches = "+".join(s.replace("default_response_if_", "") for s in sorted(off)) or "defaults"
    ctx = f"seed={case['seed']} step={step} session={ref.session:#x} off=[{switches}] request={b.hex()[:40]}"
    reply, err = d.request(b)
    if err is not None:
        shape = "defaults" if not off else ("one-byte-request" if len(b) == 1 else "unoffered-session" if ref.session not in d.model else "switch-off")
        return [(f"C13/raises/{type(err).__name__}/{shape}", f"{ctx}: handle_request raised {type(err).__name__}: {err}")]
    suppress_req = sid in vecu.SUBFN_SIDS and len(b) >= 2 and b[1] >= 0x80
    may_suppress = "default_response_if_suppress" not in off
    rule = exp["rule"]
    nontriv = (ref.session != 1 and rule not in ("service-handler", "undecided", "unmodelled-format")) or suppress_req or \
        rule in ("session-change", "ecu-reset", "send-key-correct")
    if col is not None:
        col.case((case["seed"], str(case["params"]), ref.as_tuple(), b.hex(), switches), nontriv, cls=f"{rule}/{'off' if off else 'defaults'}",
                 sample={"seed": case["seed"], "session": ref.session, "request": b.hex()[:40], "reply": None if reply is None else reply.hex()[:40],
                         "rule": rule, "off": sorted(off)})
    e = exp["reply"]
    pos_sid: int | None = None
    if isinstance(e, bytes):
        negative = e[0] == 0x7F
        if negative:
            if reply != e:
                out.append((f"C13/{rule}/wrong-reply/{'defaults' if not off else 'switch-off'}",
                            f"{ctx}: reference chain says {e.hex()}, server answered {None if reply is None else reply.hex()[:40]}"))
        else:
            pos_sid = sid
            if suppress_req and may_suppress:
                if reply is not None:
                    out.append((f"C13/suppress/positive-reply-sent/{rule}", f"{ctx}: suppress bit set, positive reply {reply.hex()[:40]} was sent"))
            elif reply is None or reply[: len(e)] != e:
                out.append((f"C13/{rule}/wrong-reply/{'defaults' if not off else 'switch-off'}",
                            f"{ctx}: reference says positive {e.hex()}.., server answered {None if reply is None else reply.hex()[:40]}"))
    else:
        # structural claims
        if reply is None:
            if e == "POSITIVE" and suppress_req and may_suppress:
                pos_sid = sid  # the certain positive reply was suppressed: its state change still happens
            elif "default_response_if_none" in off:
                pass  # silence is allowed when nothing decides
            elif not (suppress_req and may_suppress):
                out.append(("C13/suppress/silence-without-suppress-bit", f"{ctx}: no reply although the request does not ask for suppression"))
        else:
            if reply[0] == 0x7F:
                if len(reply) != 3 or reply[1] != sid:
                    out.append(("C13/structure/negative-names-other-service", f"{ctx}: reply {reply.hex()}"))
                elif exp.get("wf") and reply[2] == 0x13 and not off and \
                        (sid not in vecu.RANDOM_FORMAT_SIDS or case["params"].get("p_correct_payload_format") == 1.0):
                    # (the handlers of 0x31 / 0x2E / 0x2F answer 0x13 at random unless the model says p_correct_payload_format = 1)
                    out.append((f"C13/incorrect-format/well-formed-request-answered-0x13/sid{sid:02x}", f"{ctx}: request is well-formed per ISO layout, server says 0x13"))
                elif e == "POSITIVE":
                    out.append((f"C13/{rule}/negative-instead-of-positive", f"{ctx}: reply {reply.hex()}"))
            elif reply[0] == sid + 0x40:
                pos_sid = sid
                if suppress_req and may_suppress:
                    out.append((f"C13/suppress/positive-reply-sent/{rule}", f"{ctx}: suppress bit set, positive reply {reply.hex()[:40]} was sent"))
            else:
                out.append(("C13/structure/reply-of-other-service", f"{ctx}: reply {reply.hex()[:40]}"))
    if reply is not None and reply[0] == sid + 0x40 and sid in (0x10, 0x11, 0x27):
        pos_sid = sid
    if sid == 0x27 and len(b) >= 2 and (b[1] & 0x7F) % 2 == 0 and reply is not None and reply[0] == 0x67 and not off:
        # a key is only accepted for the seed that is still pending (same level, handed out by the directly preceding exchange,
        # accepted keep-alives aside)
        if last_seed is None or last_seed[0] + 1 != (b[1] & 0x7F) or b[2:] != last_seed[1]:
            out.append(("C13/state/key-accepted-without-pending-seed", f"{ctx}: {reply.hex()} although " +
                        ("no seed is pending" if last_seed is None else f"the pending seed is {last_seed[1].hex()} for level {last_seed[0]:#x}")))
    if reply is not None and reply[0] == 0x7F:
        pos_sid = None
    # reference state tracker
    vecu.ref_update_state(ref, b, pos_sid, reply)
    got = (d.server.state.session, d.server.state.security_access_level)
    if got != ref.as_tuple() and not (off & {"default_response_if_sub_function_not_supported", "default_response_if_session_change",
                                             "default_response_if_service_not_supported", "default_response_if_incorrect_format",
                                             "default_response_if_missing_sub_function"}):
        out.append((f"C13/state/{'session' if got[0] != ref.session else 'security-level'}-diverges/{rule}",
                    f"{ctx}: reply {None if reply is None else reply.hex()[:20]}; server state {got}, ISO state machine says {ref.as_tuple()}"))
    elif got != ref.as_tuple():
        # with structural switches off the server may legitimately follow other paths; resynchronise
        ref.session, ref.level = got
    if d.server.state.session not in d.model and not off:
        out.append(("C13/state/session-not-offered", f"{ctx}: server is in session {d.server.state.session:#x} which the model does not offer"))
    return out


def check(case: dict[str, Any]) -> list[tuple[str, str]]:
    return run_case(case, None)


def shards(tier: str) -> list[dict[str, Any]]:
    if tier == "quick":
        return [{"what": "gen", "n": 110} for _ in range(11)] + [{"what": "sweep", "seeds": [s]} for s in (1, 2, 3, 4)] + \
            [{"what": "switches", "seed": 5}] + [{"what": "handlers", "seeds": list(range(i, 24, 2))} for i in range(2)]
    return [{"what": "handlers", "seeds": list(range(i, 600, 4))} for i in range(4)] + [{"what": "gen", "n": 12000} for _ in range(12)] + [{"what": "sweep", "seeds": [s, s + 100, s + 200]} for s in range(1, 13)] + \
        [{"what": "switches", "seed": 5}]


def run_shard(spec: dict[str, Any], seed: int) -> Collector:
    col = Collector()

    def body(case: dict[str, Any]) -> None:
        for b, m in run_case(case, col):
            col.violation(b, case, m)

    w = spec["what"]
    if w == "gen":
        run_given(case_s(), body, spec["n"], seed)
    elif w == "sweep":
        for s in spec["seeds"]:
            for params in ({}, {"p_session": 0.3, "p_service": 0.5, "optional_sessions": [2, 3, 4, 0x40]}):
                d = vecu.Driver(s, params, [])
                sessions = sorted(d.model)
                d.close()
                other = [x for x in sessions if x != 1 and x in (d.model[1].get(0x10) or [])]
                for pre in ([], [("bytes", bytes([0x10, other[0]]))] if other else []):
                    if pre == [] and False:
                        continue
                    chunks = [[("bytes", bytes([sid]))] + [("bytes", bytes([sid, x])) for x in range(256)] for sid in range(256)]
                    for ch in chunks:
                        body({"seed": s, "params": params, "off": [], "ops": pre + ch})
                col.exhaustive_parts.append(f"seed {s} params {params or 'default'}: sid 0..255 x (no payload, every single payload byte) in the default session"
                                            + (f" and in session {other[0]:#x}" if other else ""))
    elif w == "handlers":
        # dense models whose handlers never answer 0x13 at random: every offered (service, sub-function) pair with several payload
        # shapes, in every session one change away from the default (the same histories as C14's handler sweep)
        from vf.props.c14 import handler_sweep

        for sd in spec["seeds"]:
            body(dict(handler_sweep(sd), off=[]))
        col.exhaustive_parts.append(f"dense models, seeds {spec['seeds'][0]}..{spec['seeds'][-1]}: every offered (service, sub-function) pair x payload shapes "
                                    "in every session one change away from the default")
    elif w == "switches":
        import itertools

        probes = [("bytes", bytes([sid]) + p) for sid in (0x10, 0x11, 0x27, 0x3E, 0x22, 0x31, 0x19, 0x2E, 0x00, 0x86)
                  for p in (b"", b"\x01", b"\x81", b"\x7f", b"\xf1\x86", b"\x01\x02\x03")]
        for r in range(0, 10):
            for off in itertools.combinations(vecu.SWITCHES, r):
                body({"seed": spec["seed"], "params": {}, "off": sorted(off), "ops": probes})
        col.exhaustive_parts.append("all 512 subsets of the nine behaviour switches x 60 probe requests for one model")
    return col


def replay(witness: Any) -> list[tuple[str, str]]:
    w = unjson(witness)
    w["ops"] = [tuple(o) if isinstance(o, list) else o for o in w["ops"]]
    w["ops"] = [(o[0], _fix(o[1])) + tuple(o[2:]) if o[0] == "valid" else o for o in w["ops"]]
    return run_case(w, None)


def _fix(c: Any) -> Any:
    return c


def shrink(bucket: str, witness: Any, seed: int) -> Any:
    return shrink_bucket(case_s(), lambda c: {b for b, _ in run_case(c, None)}, bucket, seed, max_examples=600)
