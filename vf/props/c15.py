"""C15 - Every run leaves a consistent exit code, META.json, log file and database record."""

from __future__ import annotations

import asyncio
import fcntl
import itertools
import json
import os
import shutil
import sqlite3
import sys
import time
import tempfile
from datetime import datetime
from pathlib import Path
from typing import Any
from unittest import mock

from hypothesis import strategies as st

from vf.core import Collector, run_given, unjson

PROPERTY = "C15"
LEVEL = "fault_enumeration"
RULE = (
    "Grid: exit kind in {return, sys.exit(0/3/255/'text'), ConnectionError, UDS MissingResponse, RuntimeError, KeyboardInterrupt} x lifecycle "
    "point in {setup before/after the base class's setup, main, teardown} plus real faults at db open (database path is a directory) and "
    "failing / missing pre- and post-hooks x {artifacts dir, database, lock file, hooks} on/off x command kind in {plain AsyncScript, "
    "Scanner, UDSScanner over an in-memory ECU}. `await cmd.entry_point()` runs in-process in a temporary directory. Quick samples the "
    "grid with Hypothesis, thorough enumerates it. Oracle: return value follows 0 / n / 74 / 70 / 130; META.json exists with the same exit "
    "code, ISO start <= end and a config from which CONFIG_TYPE(**config) reproduces the same JSON; log.json.zst decompresses completely "
    "and PenlogReader returns every marker record logged by the command in order; the lock file can be flock()ed without blocking "
    "afterwards; the run_meta row has end_time and the same exit_code; hooks saw GALLIA_HOOK / GALLIA_ARTIFACTS_DIR / GALLIA_INVOCATION "
    "and, for post, GALLIA_EXIT_CODE and GALLIA_META consistent with META.json; a failing or missing hook changes none of the above (nor does a hook that takes 11 s: thorough tier); a command run twice back to back leaves two intact run directories. "
    "Further: an expected error followed by a programming error in teardown (70); Ctrl-C while the pre-hook runs (child process); META times lie within the run. "
    "Non-trivial: anything but (return x all resources off). Distinct by combination."
)
ASSUMPTIONS = [
    "Ctrl-C is represented by KeyboardInterrupt raised at an await point inside the command (how asyncio surfaces it to the coroutine)",
    "faults at db close are not generated (only db open: the database path is a directory)",
    "expected ConnectionError/UDSException map to 74 only for Scanner-based commands (plain scripts declare no expected exceptions)",
]

# "connerr+bug": an expected connection error in main, and while it is being handled teardown fails with a programming error
KINDS = ["return", "exit0", "exit3", "exit255", "exitstr", "connerr", "udsexc", "runtime", "kbd", "connerr+bug"]
POINTS = ["setup-early", "setup", "main", "teardown"]
CMDS = ["plain", "scanner", "uds"]
HOOKS = ["none", "ok", "fail", "missing", "signal"]


DB_OPEN_FAILS = ("dir", "garbage", "schema")  # the path is a directory / not a database / a database of another schema version


def expected_code(case: dict[str, Any]) -> int:
    if case["db"] in DB_OPEN_FAILS:
        return 70
    k = case["kind"]
    if k == "return":
        return 0
    if k.startswith("exit"):
        return {"exit0": 0, "exit3": 3, "exit255": 255, "exitstr": 70}[k]
    if k in ("connerr", "udsexc"):
        return 74 if case["cmd"] in ("scanner", "uds") else 70
    if k in ("runtime", "connerr+bug"):
        return 70  # an unexpected exception is an internal error, whatever was going on when it was raised
    return 130


def act(case: dict[str, Any], point: str) -> None:
    if case["kind"] == "connerr+bug":
        if point == "main":
            raise ConnectionResetError("peer gone")
        if point == "teardown":
            raise RuntimeError("bug in teardown")
        return
    if case["kind"] == "return" or case["point"] != point:
        return
    k = case["kind"]
    if k == "exit0":
        sys.exit(0)
    if k == "exit3":
        sys.exit(3)
    if k == "exit255":
        sys.exit(255)
    if k == "exitstr":
        sys.exit("fatal: something")
    if k == "connerr":
        raise ConnectionResetError("peer gone")
    if k == "udsexc":
        from gallia.services.uds.core import service
        from gallia.services.uds.core.exception import MissingResponse

        raise MissingResponse(service.TesterPresentRequest())
    if k == "runtime":
        raise RuntimeError("bug in command")
    if k == "kbd":
        raise KeyboardInterrupt()


_RICH: dict[Any, Any] = {}


def rich_config(base: Any) -> Any:
    """The base config extended by options of gallia's special field types, as real commands declare them
    (hex bytes, enum by name or value, ranges, hex int)."""
    if base not in _RICH:
        from gallia.command.config import AutoInt, EnumArg, Field, HexBytes, HexInt, Ranges, Ranges2D
        from gallia.services.uds.core.constants import UDSIsoServices

        class Rich(base):  # type: ignore[misc,valid-type]
            pdu: HexBytes = Field(bytes([0x3E, 0x00]), description="pdu")
            service: EnumArg[UDSIsoServices] = Field(UDSIsoServices.ReadDataByIdentifier, description="service")
            ids: Ranges = Field([1, 2, 3], description="ids")
            mask: HexInt = Field(0xFF, description="mask")
            count: AutoInt = Field(7, description="count")
            skip: Ranges2D = Field({2: None, 3: [0x27]}, description="skip")  # an outer key without inner values means "all of it"

        _RICH[base] = Rich
    return _RICH[base]


def make_command(case: dict[str, Any], d: Path) -> Any:
    from gallia.command import AsyncScript, Scanner, UDSScanner
    from gallia.command.base import AsyncScriptConfig, ScannerConfig
    from gallia.command.uds import UDSScannerConfig
    from gallia.log import get_logger

    rich = case.get("rich")
    if rich:
        AsyncScriptConfig, ScannerConfig, UDSScannerConfig = rich_config(AsyncScriptConfig), rich_config(ScannerConfig), rich_config(UDSScannerConfig)

    lg = get_logger("gallia.vfc15")
    common: dict[str, Any] = {"hooks": case["hooks_enabled"]}
    if rich:
        common.update(pdu=bytes.fromhex(rich["pdu"]), service=rich["service"], ids=rich["ids"], mask=rich["mask"], count=rich["count"])
    if case["artifacts"]:
        common["artifacts_base"] = d / "artifacts"
    if case["db"] == "on":
        common["db"] = d / "db.sqlite"
    elif case["db"] == "dir":
        (d / "dbdir").mkdir()
        common["db"] = d / "dbdir"
    elif case["db"] == "garbage":
        (d / "junk.sqlite").write_bytes(b"this is not a database\n" * 40)
        common["db"] = d / "junk.sqlite"
    elif case["db"] == "schema":
        import sqlite3 as _sq3

        con = _sq3.connect(d / "old.sqlite")
        con.executescript("CREATE TABLE version (schema text unique, version text); INSERT INTO version VALUES ('main', '0.1');")
        con.commit()
        con.close()
        common["db"] = d / "old.sqlite"
    if case["lock"]:
        common["lock_file"] = d / "lock"
    for v in ("pre", "post"):
        h = case[f"{v}_hook"]
        if h == "ok":
            common[f"{v}_hook"] = f'env > "{d}/{v}.env"; echo out-{v}; echo err-{v} >&2'
        elif h == "slow":
            # a hook that simply takes its time (power-cycling a test bench, waiting for a boot): it is not a failing hook
            common[f"{v}_hook"] = f'env > "{d}/{v}.env"; echo out-{v}; sleep 11'
        elif h == "fail":
            common[f"{v}_hook"] = f'env > "{d}/{v}.env"; echo out-{v}; exit 7'
        elif h == "missing":
            common[f"{v}_hook"] = str(d / "does-not-exist.sh")
        elif h == "signal":
            # the hook's shell is terminated by a signal (killed by a watchdog, segfault of a tool it calls)
            common[f"{v}_hook"] = f'env > "{d}/{v}.env"; echo out-{v}; kill -TERM $$; sleep 5' 

    def markers(where: str) -> None:
        lg.info(f"marker {where} 1")
        lg.debug(f"marker {where} 2 ✓")

    if case["cmd"] == "plain":
        class P(AsyncScript):
            CONFIG_TYPE = AsyncScriptConfig

            async def setup(self) -> None:
                markers("setup")
                act(case, "setup-early")
                act(case, "setup")

            async def main(self) -> None:
                markers("main")
                if rich:
                    self.config.count = self.config.count + 1  # commands may adjust their working copy (the identifier scan clamps END)
                await asyncio.sleep(0)
                act(case, "main")

            async def teardown(self) -> None:
                markers("teardown")
                act(case, "teardown")

        return P(AsyncScriptConfig(**common))
    if case["cmd"] == "scanner":
        class S(Scanner):
            CONFIG_TYPE = ScannerConfig

            async def setup(self) -> None:
                markers("setup")
                act(case, "setup-early")
                await super().setup()
                act(case, "setup")

            async def main(self) -> None:
                markers("main")
                if rich:
                    self.config.count = self.config.count + 1
                await self.transport.request(b"\\x3e\\x00", timeout=1)
                act(case, "main")

            async def teardown(self) -> None:
                markers("teardown")
                try:
                    act(case, "teardown")
                finally:
                    await super().teardown()

        return S(ScannerConfig(target="tcp-lines://127.0.0.1:1", dumpcap=False, **common))

    class U(UDSScanner):
        CONFIG_TYPE = UDSScannerConfig

        async def setup(self) -> None:
            markers("setup")
            act(case, "setup-early")
            await super().setup()
            act(case, "setup")

        async def main(self) -> None:
            markers("main")
            if rich:
                self.config.count = self.config.count + 1
            await self.ecu.ping()
            act(case, "main")

        async def teardown(self) -> None:
            markers("teardown")
            try:
                act(case, "teardown")
            finally:
                await super().teardown()

    return U(UDSScannerConfig(target="tcp-lines://127.0.0.1:1", dumpcap=False, ping=False, tester_present=False, **common))


def run_case(case: dict[str, Any], d: Path) -> dict[str, Any]:
    from vf import vecu
    from vf.scan import MemECUTransport

    res: dict[str, Any] = {}

    async def go() -> None:
        server = vecu.make_server(3, {}, [])
        await server.setup()
        tr = MemECUTransport(server, [], 10000)

        class Loader:
            @classmethod
            async def connect(cls, target: Any, timeout: float | None = None) -> Any:
                tr.is_closed = False
                return tr

        if case.get("twice") and case["db"] == "off":
            # the same command has just been run with the same artifacts base (a script that calls gallia in a loop): that run's
            # artifacts are its own
            prev = make_command({**case, "kind": "return", "point": "main", "pre_hook": "none", "post_hook": "none", "db_close": None}, d)
            with mock.patch("gallia.plugins.plugin.load_transport", lambda target: Loader):
                res["prev_rc"] = await prev.entry_point()
        res["t_make"] = time.time()
        cmd = make_command(case, d)
        res["cmd"] = cmd
        res["start_config"] = json.loads(cmd.config.model_dump_json())
        import contextlib
        import sqlite3 as _sq

        from gallia.db.handler import DBHandler

        with contextlib.ExitStack() as stack:
            stack.enter_context(mock.patch("gallia.plugins.plugin.load_transport", lambda target: Loader))
            fault = case.get("db_close") or ""
            # what the sqlite layer raises differs: OperationalError for I/O trouble, ValueError("no active connection") from
            # aiosqlite when the connection is already gone
            exc_cls: Any = ValueError if fault.endswith("-ve") else _sq.OperationalError
            fault = fault.removesuffix("-ve")
            if fault == "complete":
                # the final update of the run entry fails (disk full, database locked by another process)
                async def failing_complete(self: Any, *a: Any, **kw: Any) -> None:
                    raise exc_cls("verif: database or disk is full / no active connection")

                stack.enter_context(mock.patch.object(DBHandler, "complete_run_meta", failing_complete))
            elif fault == "disconnect":
                real = DBHandler.disconnect

                async def failing_disconnect(self: Any) -> None:
                    await real(self)
                    raise exc_cls("verif: disk I/O error while closing / no active connection")

                stack.enter_context(mock.patch.object(DBHandler, "disconnect", failing_disconnect))
            try:
                res["rc"] = await cmd.entry_point()
            except BaseException as e:  # noqa: BLE001
                res["escaped"] = f"{type(e).__name__}: {e}"
            res["t_done"] = time.time()

    import logging
    import threading

    before = set(threading.enumerate())
    old_argv = sys.argv
    sys.argv = ["gallia", "vf", "c15"]
    glog = logging.getLogger("gallia")
    old_level = glog.level
    glog.setLevel(5)  # what setup_logging() does for a CLI run: records down to TRACE reach the file handler
    reported: list[str] = []

    class _Warn(logging.Handler):
        def emit(self, record: logging.LogRecord) -> None:
            if record.levelno >= logging.WARNING:
                reported.append(record.getMessage())

    wh = _Warn(0)
    glog.addHandler(wh)
    try:
        asyncio.run(go())
    finally:
        glog.removeHandler(wh)
        sys.argv = old_argv
        glog.setLevel(old_level)
    res["reported"] = reported
    # A thread that is not a daemon and still alive keeps the interpreter from exiting: the process would never deliver its exit
    # code. (Threads get a moment to wind down; the leaked ones are stopped afterwards so that they cannot pile up here.)
    left = [t for t in threading.enumerate() if t not in before and not t.daemon and t is not threading.current_thread()]
    deadline = time.monotonic() + 1.0
    while left and time.monotonic() < deadline:
        for t in left:
            t.join(0.05)
        left = [t for t in left if t.is_alive()]
    res["threads_left"] = [f"{getattr(getattr(t, '_target', None), '__module__', type(t).__module__)}.{getattr(getattr(t, '_target', None), '__name__', type(t).__name__)}" for t in left]
    for t in left:
        try:  # aiosqlite's connection thread ends when a queued call returns its stop sentinel
            from aiosqlite.core import _STOP_RUNNING_SENTINEL

            if getattr(getattr(t, "_target", None), "__name__", "") == "_connection_worker_thread":
                t._args[0].put_nowait((None, lambda: _STOP_RUNNING_SENTINEL))  # type: ignore[attr-defined]
                t.join(1.0)
        except Exception:  # noqa: BLE001
            pass
    return res


def observe(case: dict[str, Any], d: Path, res: dict[str, Any]) -> dict[str, Any]:
    """Everything the property talks about, read back from disk."""
    from gallia.log import PenlogReader

    obs: dict[str, Any] = {"rc": res.get("rc"), "escaped": res.get("escaped"), "threads_left": res.get("threads_left") or [], "reported": res.get("reported") or []}
    cmd = res.get("cmd")
    if case["artifacts"]:
        runs = sorted((d / "artifacts").glob("*/run-*"))
        obs["n_runs"] = len(runs)
        if case.get("twice") and case["db"] == "off" and len(runs) >= 1:
            try:
                obs["prev_meta"] = json.loads((runs[0] / "META.json").read_text())
                with PenlogReader(runs[0] / "log.json.zst") as rd:
                    obs["prev_markers"] = [r.data for r in rd.records() if r.data.startswith("marker ")]
            except Exception as e:  # noqa: BLE001
                obs["prev_error"] = f"{type(e).__name__}: {e}"
        if runs:
            a = runs[-1]
            meta_f = a / "META.json"
            if meta_f.exists():
                try:
                    obs["meta"] = json.loads(meta_f.read_text())
                except Exception as e:  # noqa: BLE001
                    obs["meta_error"] = repr(e)
            logf = a / "log.json.zst"
            if logf.exists():
                try:
                    with PenlogReader(logf) as rd:
                        obs["markers"] = [r.data for r in rd.records() if r.data.startswith("marker ")]
                except Exception as e:  # noqa: BLE001
                    obs["log_error"] = f"{type(e).__name__}: {e}"
            else:
                obs["log_missing"] = True
    if case["db"] == "on" and (d / "db.sqlite").exists():
        con = sqlite3.connect(d / "db.sqlite")
        try:
            obs["run_meta"] = con.execute("SELECT end_time, exit_code, config FROM run_meta").fetchall()
        except Exception as e:  # noqa: BLE001
            obs["db_error"] = repr(e)
        con.close()
    if case["lock"]:
        try:
            fd = os.open(d / "lock", os.O_RDONLY)
            try:
                fcntl.flock(fd, fcntl.LOCK_EX | fcntl.LOCK_NB)
                fcntl.flock(fd, fcntl.LOCK_UN)
                obs["lock_free"] = True
            except BlockingIOError:
                obs["lock_free"] = False
            finally:
                os.close(fd)
        except FileNotFoundError:
            obs["lock_free"] = None
    # a leaked lock fd of this process must be closed so that the next case starts clean
    if cmd is not None and getattr(cmd, "_lock_file_fd", None) is not None and obs.get("lock_free") is False:
        try:
            os.close(cmd._lock_file_fd)
        except OSError:
            pass
    for v in ("pre", "post"):
        f = d / f"{v}.env"
        if f.exists():
            env = {}
            for line in f.read_text(errors="replace").splitlines():
                if line.startswith("GALLIA_") and "=" in line:
                    k, val = line.split("=", 1)
                    env[k] = val
            obs[f"{v}_env"] = env
    # leaked log handlers would receive the next case's records
    import logging

    obs["leaked_handlers"] = sum(1 for h in logging.getLogger("gallia").handlers if type(h).__name__ == "QueueHandler")
    for h in list(logging.getLogger("gallia").handlers):
        if type(h).__name__ == "QueueHandler":
            logging.getLogger("gallia").removeHandler(h)
    return obs


def expected_markers(case: dict[str, Any]) -> list[str]:
    if case["db"] in DB_OPEN_FAILS:
        return []
    order = ["setup"]
    p, k = case["point"], case["kind"]
    failed_setup = k != "return" and p in ("setup-early", "setup")
    if not failed_setup:
        order += ["main", "teardown"]
    out = []
    for w in order:
        out += [f"marker {w} 1", f"marker {w} 2 ✓"]
    return out


def check(case: dict[str, Any]) -> list[tuple[str, str]]:
    if case.get("kind") == "cli":
        return check_cli(case)
    if case.get("kind") == "cli-sigint":
        return check_cli_sigint(case)
    d = Path(tempfile.mkdtemp(prefix="vf-c15."))
    try:
        try:
            res = run_case(case, d)
        except BaseException as e:  # noqa: BLE001
            return [(f"C15/escapes-the-event-loop/{type(e).__name__}", f"{case}: {type(e).__name__} left asyncio.run(): {e}")]
        obs = observe(case, d, res)
    finally:
        shutil.rmtree(d, ignore_errors=True)
    out: list[tuple[str, str]] = []
    exp = expected_code(case)
    hook_state = "hooks-ok"
    if case["hooks_enabled"]:
        if case["pre_hook"] in ("fail", "missing", "signal"):
            hook_state = "failing-pre-hook"
        elif case["post_hook"] in ("fail", "missing", "signal"):
            hook_state = "failing-post-hook"
    where = "db-open" if case["db"] in DB_OPEN_FAILS else (f"{case['cmd']}/{case['point']}" if case["kind"] != "return" else case["cmd"])
    ctx = f"{case}"
    if obs["escaped"] is not None:
        site = hook_state if hook_state != "hooks-ok" else where
        return [(f"C15/exception-escapes-entry_point/{obs['escaped'].split(':')[0]}/{site}", f"{ctx}: {obs['escaped']}")]
    if obs["rc"] != exp:
        out.append((f"C15/exit-code/{obs['rc']}-instead-of-{exp}/{where}", f"{ctx}: entry_point() returned {obs['rc']}"))
    if case["artifacts"] and case.get("twice") and case["db"] == "off":
        good = [f"marker {w} {x}" for w in ("setup", "main", "teardown") for x in ("1", "2 ✓")]
        if obs.get("n_runs") != 2:
            out.append(("C15/two-runs-share-one-artifacts-dir", f"{ctx}: two runs one after the other left {obs.get('n_runs')} run directories"))
        elif obs.get("prev_error") or (obs.get("prev_meta") or {}).get("exit_code") != 0 or obs.get("prev_markers") != good:
            out.append(("C15/earlier-run-artifacts-damaged", f"{ctx}: first run: {obs.get('prev_error')} META {obs.get('prev_meta')} markers {obs.get('prev_markers')}"))
    if case["artifacts"]:
        meta = obs.get("meta")
        if meta is None:
            out.append((f"C15/meta-json-missing/{where}/{hook_state}", f"{ctx}: {obs.get('meta_error', 'no META.json')} (runs: {obs.get('n_runs')})"))
        else:
            if meta.get("exit_code") != obs["rc"]:
                out.append((f"C15/meta-exit-code/{where}", f"{ctx}: META.json exit_code {meta.get('exit_code')}, returned {obs['rc']}"))
            try:
                t0, t1 = datetime.fromisoformat(meta["start_time"]), datetime.fromisoformat(meta["end_time"])
                if t0 > t1:
                    out.append(("C15/meta-times", f"{ctx}: start {meta['start_time']} > end {meta['end_time']}"))
                # the times are those of THIS run: not before the command object was made, not after entry_point() returned
                lo, hi = res.get("t_make"), res.get("t_done")
                if lo is not None and hi is not None and not (lo - 0.05 <= t0.timestamp() <= t1.timestamp() <= hi + 0.05):
                    out.append(("C15/meta-times/not-of-this-run", f"{ctx}: start {meta['start_time']} end {meta['end_time']}, the run took place "
                                f"between {datetime.fromtimestamp(lo).isoformat()} and {datetime.fromtimestamp(hi).isoformat()} (local time)"))
            except Exception as e:  # noqa: BLE001
                out.append(("C15/meta-times", f"{ctx}: {e!r}: {meta.get('start_time')!r} {meta.get('end_time')!r}"))
            try:
                cmd = res["cmd"]
                again = type(cmd).CONFIG_TYPE(**meta["config"])
                if json.loads(again.model_dump_json()) != meta["config"]:
                    out.append(("C15/meta-config-not-reproducible", f"{ctx}: {meta['config']} -> {again.model_dump_json()}"))
            except Exception as e:  # noqa: BLE001
                out.append(("C15/meta-config-not-reproducible", f"{ctx}: CONFIG_TYPE(**config) raised {e!r}"))
            if res.get("start_config") is not None and meta.get("config") != res["start_config"]:
                diff = [k for k in res["start_config"] if meta.get("config", {}).get(k) != res["start_config"][k]]
                out.append(("C15/meta-config-is-not-the-start-configuration", f"{ctx}: META.json differs from the configuration the run was started with in {diff[:4]}: "
                            f"{[(k, res['start_config'][k], meta.get('config', {}).get(k)) for k in diff[:3]]}"))
            rm_ = obs.get("run_meta")
            if case["db"] == "on" and rm_ and len(rm_) == 1 and rm_[0][2] is not None:
                try:
                    if json.loads(rm_[0][2]) != meta["config"]:
                        out.append(("C15/meta-config-differs-from-database", f"{ctx}: META.json {meta['config']} vs run_meta.config {rm_[0][2]}"))
                except Exception as e:  # noqa: BLE001
                    out.append(("C15/meta-config-differs-from-database", f"{ctx}: run_meta.config unreadable: {e!r}"))
        if obs.get("log_error") or obs.get("log_missing"):
            out.append((f"C15/log-unreadable/{where}", f"{ctx}: {obs.get('log_error', 'log.json.zst missing')}"))
        elif obs.get("markers") != expected_markers(case):
            out.append((f"C15/log-records/{where}", f"{ctx}: markers {obs.get('markers')} expected {expected_markers(case)}"))
        if obs.get("leaked_handlers"):
            out.append((f"C15/log-handler-left-open/{where}/{hook_state}", f"{ctx}: {obs['leaked_handlers']} handler(s) still attached"))
    if obs.get("threads_left"):
        out.append((f"C15/process-cannot-exit/non-daemon-thread-left/{where}", f"{ctx}: entry_point() returned {obs['rc']} but {obs['threads_left']} is still running: "
                    "the interpreter waits for it at exit, the process never delivers its exit code"))
    if case["lock"] and obs.get("lock_free") is not True:
        out.append((f"C15/lock-not-released/{where}/{hook_state}", f"{ctx}: flock(LOCK_NB) -> {obs.get('lock_free')}"))
    if case["db"] == "on":
        rm = obs.get("run_meta")
        if not rm or len(rm) != 1:
            out.append((f"C15/db-run-meta-rows/{where}", f"{ctx}: {rm}"))
        else:
            end_time, code, _cfg = rm[0]
            if (case.get("db_close") or "").startswith("complete"):
                pass  # the injected fault is the failure of exactly this update
            elif end_time is None or code != obs["rc"]:
                out.append((f"C15/db-run-meta-not-completed/{case['cmd']}", f"{ctx}: run_meta end_time={end_time} exit_code={code}, returned {obs['rc']}"))
    if case["hooks_enabled"]:
        for v in ("pre", "post"):
            # a hook that ran and failed - non-zero exit status or death by signal - is reported (warning or above naming the hook)
            if case[f"{v}_hook"] in ("fail", "signal") and obs.get(f"{v}_env") is not None:
                if not any(f"{v}-hook" in m for m in obs["reported"]):
                    out.append((f"C15/failing-hook-not-reported/{v}/{case[f'{v}_hook']}", f"{ctx}: warnings and errors of the run: {obs['reported'][:4]}"))
        for v in ("pre", "post"):
            if case[f"{v}_hook"] in ("ok", "fail", "signal", "slow"):
                env = obs.get(f"{v}_env")
                if env is None:
                    if v == "post" or case["db"] not in DB_OPEN_FAILS:
                        out.append((f"C15/hook-not-run/{v}/{where}", f"{ctx}"))
                    continue
                if env.get("GALLIA_HOOK") != v or "GALLIA_INVOCATION" not in env or "GALLIA_ARTIFACTS_DIR" not in env:
                    out.append((f"C15/hook-env/{v}", f"{ctx}: {env}"))
                if v == "post":
                    if env.get("GALLIA_EXIT_CODE") != str(obs["rc"]):
                        out.append(("C15/hook-env/post-exit-code", f"{ctx}: GALLIA_EXIT_CODE={env.get('GALLIA_EXIT_CODE')} returned {obs['rc']}"))
                    try:
                        gm = json.loads(env.get("GALLIA_META", "null"))
                        if case["artifacts"] and obs.get("meta") is not None and gm != obs["meta"]:
                            out.append(("C15/hook-env/post-meta", f"{ctx}: GALLIA_META differs from META.json"))
                    except Exception as e:  # noqa: BLE001
                        out.append(("C15/hook-env/post-meta", f"{ctx}: {e!r}"))
    else:
        for v in ("pre", "post"):
            if obs.get(f"{v}_env") is not None:
                out.append((f"C15/hook-run-although-disabled/{v}", ctx))
    return out


@st.composite
def case_s(draw) -> dict[str, Any]:
    kind = draw(st.sampled_from(KINDS))
    return {"cmd": draw(st.sampled_from(CMDS)), "kind": kind, "point": draw(st.sampled_from(POINTS)) if kind not in ("return", "connerr+bug") else "main",
            "artifacts": draw(st.booleans()), "db": draw(st.sampled_from(["off", "on", "on", "on", "dir", "garbage", "schema"])), "lock": draw(st.booleans()),
            "hooks_enabled": draw(st.sampled_from([True, True, True, False])), "pre_hook": draw(st.sampled_from(HOOKS)), "post_hook": draw(st.sampled_from(HOOKS)),
            "db_close": draw(st.sampled_from([None, None, None, None, "complete", "disconnect", "complete-ve", "disconnect-ve"])),
            "twice": draw(st.integers(0, 3)) == 0,
            "rich": draw(st.one_of(st.none(), st.fixed_dictionaries({
                "pdu": st.binary(min_size=0, max_size=6).map(bytes.hex), "service": st.sampled_from([0x10, 0x22, 0x27, 0x3E]),
                "ids": st.lists(st.integers(0, 0xFFFF), max_size=4, unique=True).map(sorted), "mask": st.integers(0, 0xFFFF), "count": st.integers(0, 2**31)})))}


def grid() -> list[dict[str, Any]]:
    out = []
    for cmd, kind, art, db, lock in itertools.product(CMDS, KINDS, [False, True], ["off", "on", "dir", "garbage", "schema"], [False, True]):
        for point in (POINTS if kind not in ("return", "connerr+bug") else ["main"]):
            for he, pre, post in [(True, "none", "none"), (True, "ok", "ok"), (True, "fail", "ok"), (True, "ok", "fail"), (True, "missing", "missing"), (False, "ok", "fail"), (True, "signal", "signal")]:
                out.append({"cmd": cmd, "kind": kind, "point": point, "artifacts": art, "db": db, "lock": lock, "hooks_enabled": he, "pre_hook": pre, "post_hook": post,
                            "rich": {"pdu": "22f190", "service": 0x27, "ids": [1, 16, 255], "mask": 0x7F, "count": 300} if (len(out) % 3 == 0) else None,
                            "db_close": [None, "complete", "disconnect", "complete-ve", "disconnect-ve"][len(out) % 7 % 5] if db == "on" else None})
    return out


def nontrivial(case: dict[str, Any]) -> bool:
    return not (case["kind"] == "return" and not case["artifacts"] and case["db"] == "off" and not case["lock"] and case["pre_hook"] == "none" and case["post_hook"] == "none")


def shards(tier: str) -> list[dict[str, Any]]:
    if tier == "quick":
        return [{"what": "gen", "n": 120} for _ in range(15)] + [{"what": "cli", "pick": 5}]
    g = len(grid())
    return [{"what": "grid", "part": i, "parts": 16, "total": g} for i in range(16)] + [{"what": "gen", "n": 2500} for _ in range(8)] + \
        [{"what": "cli", "part": i, "parts": 4} for i in range(4)] + [{"what": "slow-hooks", "part": i} for i in range(4)]


def check_cli(case: dict[str, Any]) -> list[tuple[str, str]]:
    """The same statement from outside: the real `gallia` command line in a child process. The process has to end by itself,
    and its exit status, META.json and the database entry have to agree."""
    import subprocess

    d = Path(tempfile.mkdtemp(prefix="vf-c15cli."))
    out: list[tuple[str, str]] = []
    server = None
    try:
        sock = d / "ecu.sock"
        args = [sys.executable, "-c", "import sys; from gallia.cli.gallia import main; sys.argv[0] = 'gallia'; sys.exit(main())",
                "primitive", "uds", "ping", "--target", f"unix-lines://{sock}", "--artifacts-base", str(d / "art"), "--no-dumpcap", "--count", "1"]
        if case["db"] == "on":
            args += ["--db", str(d / "db.sqlite")]
        elif case["db"] == "garbage":
            (d / "junk.sqlite").write_bytes(b"this is not a database\n" * 40)
            args += ["--db", str(d / "junk.sqlite")]
        elif case["db"] == "dir":
            (d / "dbdir").mkdir()
            args += ["--db", str(d / "dbdir")]
        if case["lock"]:
            args += ["--lock-file", str(d / "lock")]
        if case["post_hook"] == "fail":
            args += ["--post-hook", "exit 7"]
        elif case["post_hook"] == "signal":
            args += ["--post-hook", "kill -TERM $$; sleep 5"]
        env = {k: v for k, v in os.environ.items() if not k.startswith("GALLIA_") or k == "GALLIA_VERIF"}
        if case["ecu"]:
            server = subprocess.Popen([sys.executable, "-c", "import sys; from gallia.cli.gallia import main; sys.argv[0] = 'gallia'; sys.exit(main())",
                                       "script", "vecu", "rng", f"unix-lines://{sock}", "--seed", "3"], cwd=d, env=env, stdout=subprocess.DEVNULL, stderr=subprocess.DEVNULL)
            for _ in range(200):
                if sock.exists():
                    break
                time.sleep(0.05)
        ctx = f"gallia {' '.join(a for a in args[3:])} (virtual ECU {'running' if case['ecu'] else 'absent'})"
        try:
            p = subprocess.run(args, cwd=d, env=env, capture_output=True, text=True, timeout=60)
        except subprocess.TimeoutExpired:
            return [(f"C15/cli/process-does-not-exit/db-{case['db']}", f"{ctx}: still running after 60 s")]
        rc = p.returncode
        exp = {0} if (case["ecu"] and case["db"] in ("off", "on")) else {70, 74}
        if rc not in exp:
            out.append((f"C15/cli/exit-status/{rc}", f"{ctx}: exit status {rc}, expected {sorted(exp)}; stderr tail: {p.stderr[-300:]}"))
        metas = sorted((d / "art").glob("*/run-*/META.json"))
        if len(metas) != 1:
            out.append(("C15/cli/meta-json-missing", f"{ctx}: {len(metas)} META.json files"))
        else:
            meta = json.loads(metas[0].read_text())
            if meta.get("exit_code") != rc:
                out.append(("C15/cli/meta-exit-code", f"{ctx}: META.json says {meta.get('exit_code')}, the process exited with {rc}"))
        if case["db"] == "on":
            con = sqlite3.connect(d / "db.sqlite")
            rows = con.execute("SELECT end_time, exit_code FROM run_meta").fetchall()
            con.close()
            if len(rows) != 1 or rows[0][0] is None or rows[0][1] != rc:
                out.append(("C15/cli/db-run-meta", f"{ctx}: run_meta rows {rows}, exit status {rc}"))
        if case["lock"]:
            import fcntl

            fd = os.open(d / "lock", os.O_RDWR | os.O_CREAT)
            try:
                fcntl.flock(fd, fcntl.LOCK_EX | fcntl.LOCK_NB)
            except OSError:
                out.append(("C15/cli/lock-not-released", ctx))
            finally:
                os.close(fd)
        return out
    finally:
        if server is not None:
            server.terminate()
            try:
                server.wait(10)
            except Exception:  # noqa: BLE001
                server.kill()
        shutil.rmtree(d, ignore_errors=True)


def check_cli_sigint(case: dict[str, Any]) -> list[tuple[str, str]]:
    """A real Ctrl-C: SIGINT to a running command (the virtual ECU server, which runs until interrupted)."""
    import signal
    import subprocess

    d = Path(tempfile.mkdtemp(prefix="vf-c15sig."))
    out: list[tuple[str, str]] = []
    try:
        sock = d / "ecu.sock"
        args = [sys.executable, "-c", "import sys; from gallia.cli.gallia import main; sys.argv[0] = 'gallia'; sys.exit(main())",
                "script", "vecu", "rng", f"unix-lines://{sock}", "--seed", "3", "--artifacts-base", str(d / "art")]
        if case["db"] == "on":
            args += ["--db", str(d / "db.sqlite")]
        if case["lock"]:
            args += ["--lock-file", str(d / "lock")]
        if case["post_hook"] == "ok":
            args += ["--post-hook", f'echo "$GALLIA_EXIT_CODE" > "{d}/post.code"']
        during_pre = case.get("at") == "pre-hook"
        if during_pre:
            # Ctrl-C while the pre-hook (a power-cycle script, say) is still running
            args += ["--pre-hook", f'touch "{d}/pre.started"; sleep 2']
        env = {k: v for k, v in os.environ.items() if not k.startswith("GALLIA_") or k == "GALLIA_VERIF"}
        p = subprocess.Popen(args, cwd=d, env=env, stdout=subprocess.DEVNULL, stderr=subprocess.PIPE, text=True)
        for _ in range(400):
            if (d / "pre.started").exists() if during_pre else sock.exists():
                break
            if p.poll() is not None:
                break
            time.sleep(0.05)
        time.sleep(case.get("after", 0.3))
        ctx = f"gallia {' '.join(args[3:])}, SIGINT " + ("while the pre-hook was running" if during_pre else "after the server was up")
        if p.poll() is not None:
            return [("C15/cli/sigint/command-ended-early", f"{ctx}: exit status {p.returncode}; {p.stderr.read()[-300:]}")]
        p.send_signal(signal.SIGINT)
        try:
            rc = p.wait(60)
        except subprocess.TimeoutExpired:
            p.kill()
            p.wait()
            return [("C15/cli/sigint/process-does-not-exit", f"{ctx}: still running 60 s after SIGINT")]
        if rc not in (130, -signal.SIGINT):
            out.append((f"C15/cli/sigint/exit-status/{rc}", f"{ctx}: exit status {rc}, expected 130 (or death by SIGINT)"))
        metas = sorted((d / "art").glob("*/run-*/META.json"))
        if len(metas) != 1:
            out.append(("C15/cli/sigint/meta-json-missing", f"{ctx}: {len(metas)} META.json files"))
        else:
            meta = json.loads(metas[0].read_text())
            if meta.get("exit_code") != 130:
                out.append(("C15/cli/sigint/meta-exit-code", f"{ctx}: the process ended with {rc}, META.json says exit_code {meta.get('exit_code')}"))
        if case["db"] == "on":
            con = sqlite3.connect(d / "db.sqlite")
            try:
                rows = con.execute("SELECT end_time, exit_code FROM run_meta").fetchall()
            except sqlite3.OperationalError:
                rows = []  # the database was never set up
            con.close()
            if during_pre and not rows:
                pass  # interrupted before the database was opened: there is no run entry that could be incomplete
            elif len(rows) != 1 or rows[0][0] is None or rows[0][1] != 130:
                out.append(("C15/cli/sigint/db-run-meta", f"{ctx}: the process ended with {rc}, run_meta rows {rows}"))
        if case["post_hook"] == "ok":
            code = (d / "post.code").read_text().strip() if (d / "post.code").exists() else None
            if code != "130":
                out.append(("C15/cli/sigint/post-hook", f"{ctx}: post-hook saw GALLIA_EXIT_CODE={code!r}"))
        if case["lock"]:
            fd = os.open(d / "lock", os.O_RDWR | os.O_CREAT)
            try:
                fcntl.flock(fd, fcntl.LOCK_EX | fcntl.LOCK_NB)
            except OSError:
                out.append(("C15/cli/sigint/lock-not-released", ctx))
            finally:
                os.close(fd)
        return out
    finally:
        shutil.rmtree(d, ignore_errors=True)


def cli_cases() -> list[dict[str, Any]]:
    return [{"kind": "cli", "ecu": ecu, "db": db, "lock": lock, "post_hook": hook}
            for ecu in (True, False) for db in ("off", "on", "garbage", "dir") for lock in (False, True) for hook in ("none", "fail", "signal")] + \
        [{"kind": "cli-sigint", "db": db, "lock": lock, "post_hook": hook, "after": after}
         for db in ("off", "on") for lock in (False, True) for hook in ("none", "ok") for after in (0.3, 1.2)] + \
        [{"kind": "cli-sigint", "db": db, "lock": True, "post_hook": "ok", "after": 0.5, "at": "pre-hook"} for db in ("off", "on")]


def _quiet_aiosqlite_threads() -> None:
    """After a failed open, aiosqlite's worker thread outlives the event loop and reports 'Event loop is closed' from its
    thread when it finally gives up; that is stderr noise of the db-open fault injection, not a finding."""
    import threading

    orig = threading.excepthook

    def hook(args: Any) -> None:
        if isinstance(args.exc_value, RuntimeError) and "Event loop is closed" in str(args.exc_value):
            return
        orig(args)

    threading.excepthook = hook


def run_shard(spec: dict[str, Any], seed: int) -> Collector:
    col = Collector()
    _quiet_aiosqlite_threads()

    def body(case: dict[str, Any]) -> None:
        res = check(case)
        col.case(str(case), nontrivial(case), cls=f"{case['cmd']}/{case['kind']}" + (f"/db-{case['db']}" if case["db"] in DB_OPEN_FAILS else ""), sample=case)
        for b, m in res:
            col.violation(b, case, m)

    if spec["what"] == "cli":
        cases = cli_cases()
        if "pick" in spec:
            # quick tier: a seed-dependent handful, always with one run against a running ECU and one with a file that is no database
            rot = seed % len(cases)
            cases = [c for c in cases if c.get("ecu") and c["db"] == "on"][:1] + [c for c in cases if c["db"] == "garbage"][:1] + \
                [c for c in cases if c["kind"] == "cli-sigint" and c["db"] == "on" and not c.get("at")][seed % 4:][:1] + \
                [c for c in cases if c.get("at") == "pre-hook"][seed % 2:][:1] + (cases[rot:] + cases[:rot])[: spec["pick"] - 4]
        else:
            cases = cases[spec["part"]::spec["parts"]]
            col.exhaustive_parts.append("real command line in a child process: {ECU running, absent} x db {off, on, not a database, directory} x lock x post-hook {none, failing, killed}")
        for c in cases:
            res = check(c)
            col.case(str(c), True, cls=(f"cli/{'ecu' if c['ecu'] else 'no-ecu'}/db-{c['db']}" if c["kind"] == "cli" else f"cli/sigint/db-{c['db']}" + ("/during-pre-hook" if c.get("at") else "")), sample=c)
            for b, m in res:
                col.violation(b, c, m)
        return col
    if spec["what"] == "slow-hooks":
        # real time: each case waits for an 11 s hook (thorough tier only)
        i = spec["part"]
        body({"cmd": CMDS[i % len(CMDS)], "kind": KINDS[(seed + i) % len(KINDS)], "point": "main", "artifacts": True, "db": "on" if i % 2 else "off", "lock": True,
              "hooks_enabled": True, "pre_hook": "slow" if i < 2 else "ok", "post_hook": "slow" if i >= 2 else "ok", "db_close": None, "rich": None})
        return col
    if spec["what"] == "grid":
        g = grid()
        for c in g[spec["part"]::spec["parts"]]:
            body(c)
        if spec["part"] == 0:
            col.exhaustive_parts.append(f"full grid of {len(g)} combinations (command kind x exit kind x lifecycle point x artifacts x db x lock x 6 hook settings)")
        return col
    run_given(case_s(), body, spec["n"], seed)
    return col


def replay(witness: Any) -> list[tuple[str, str]]:
    _quiet_aiosqlite_threads()
    return check(unjson(witness))
