"""C14 - The virtual ECU survives any request and its answers are accepted by the client."""

from __future__ import annotations

import asyncio
from binascii import hexlify, unhexlify
from typing import Any

from hypothesis import strategies as st

from vf import refcodec, vecu
from vf.core import Collector, run_given, shrink_bucket, unjson
from vf.vtime import MemWriter, run_virtual

PROPERTY = "C14"
LEVEL = "exploration"
RULE = (
    "A case is (seed, randomness parameters, request history) with default behaviours: random byte strings (1..64 bytes), every sid "
    "with 0..8 payload bytes, offered service x offered sub-function, structured valid requests from the reference codec (multi-DID, "
    "suppress bit, boundary lengths, 4 KiB records), seed/key pairs, session changes to keep moving through the model; driven either "
    "directly at UDSServerTransport.handle_request or through TCPUDSServerTransport.handle_client over in-memory streams. Oracle "
    "after every step: no exception, connection still open and exactly one reply line per unsuppressed request, the server's "
    "session is one the model offers, the reply is well-formed for the reference decoder, and gallia's own client "
    "(helpers.parse_pdu with the request as RawRequest and, when decodable, as typed request) accepts it without "
    "RequestResponseMismatch / MalformedResponse. Thorough: atheris campaign over (seed, history bytes). "
    "DTC shards probe the DTC services in up to four sessions of thousands of models (per-model random state that only few requests read). "
    "Non-trivial: step in a non-default session or with a positive reply. Distinct by (seed, parameters, state, request)."
)
ASSUMPTIONS = [
    "behaviour switches are left at their defaults (the statement speaks of the virtual ECU as shipped)",
    "the in-memory stream pair stands in for the TCP connection of handle_client",
]


@st.composite
def case_s(draw) -> dict[str, Any]:
    big = st.tuples(st.just("raw"), st.binary(min_size=1, max_size=64))
    return {"seed": draw(st.one_of(st.integers(0, 40), st.integers(0, 2**32))), "params": draw(vecu.params_s()),
            "via": draw(st.sampled_from(["direct", "direct", "stream"])),
            "ops": draw(st.lists(st.one_of(vecu.op, vecu.op, big), min_size=1, max_size=50))}


def check_reply(b: bytes, reply: bytes | None, ctx: str) -> list[tuple[str, str]]:
    from gallia.services.uds.core import service
    from gallia.services.uds.core.exception import MalformedResponse, RequestResponseMismatch
    from gallia.services.uds.helpers import parse_pdu

    out: list[tuple[str, str]] = []
    if reply is None:
        return out
    if len(reply) == 0:
        return [("C14/empty-reply", f"{ctx}: empty reply")]
    kind, _ = refcodec.ref_decode_response(reply)
    if kind == "malformed":
        out.append((f"C14/reply-not-well-formed/sid{b[0]:02x}", f"{ctx}: reply {reply.hex()[:60]} breaks the ISO layout of its service"))
    if reply[0] != 0x7F and reply[0] != (b[0] + 0x40) & 0xFF:
        out.append(("C14/reply-of-other-service", f"{ctx}: reply {reply.hex()[:40]}"))
    reqs: list[tuple[str, Any]] = [("raw", service.RawRequest(b))]
    typed = service.UDSRequest.parse_dynamic(b)
    if not isinstance(typed, service.RawRequest):
        reqs.append((type(typed).__name__, typed))
    for name, rq in reqs:
        try:
            parse_pdu(reply, rq)
        except RequestResponseMismatch as e:
            out.append((f"C14/client-refuses/mismatch/{'raw' if name == 'raw' else name}", f"{ctx}: reply {reply.hex()[:60]}: {e}"[:400]))
        except MalformedResponse as e:
            out.append((f"C14/client-refuses/malformed/{'raw' if name == 'raw' else name}", f"{ctx}: reply {reply.hex()[:60]}: {e}"[:400]))
        except Exception as e:  # noqa: BLE001
            out.append((f"C14/client-raises/{type(e).__name__}", f"{ctx}: reply {reply.hex()[:60]}: {type(e).__name__}: {e}"))
    return out


def run_case(case: dict[str, Any], col: Collector | None = None) -> list[tuple[str, str]]:
    if case.get("via") == "stream":
        return run_stream(case, col)
    out: list[tuple[str, str]] = []
    try:
        d = vecu.Driver(case["seed"], case["params"], [])
    except Exception as e:  # noqa: BLE001
        return [(f"C14/setup-raises/{type(e).__name__}", f"seed={case['seed']} params={case['params']}: {type(e).__name__}: {e}")]
    try:
        flat = [e for o in case["ops"] for e in (vecu.expand(tuple(o)) if o and o[0] != "bytes" else [o])]
        for step, o in enumerate(flat):
            if o[0] == "idle":
                d.idle(o[1])
                continue
            session = d.server.state.session
            b = o[1] if o[0] == "bytes" else vecu.resolve(tuple(o), d.model, session, d.prev, d.last_seed, d.seen_seed)
            if not b:
                continue
            ctx = f"seed={case['seed']} step={step} session={session:#x} request={b.hex()[:60]}"
            reply, err = d.request(b)
            if err is not None:
                out.append((f"C14/raises/{type(err).__name__}", f"{ctx}: handle_request raised {type(err).__name__}: {err}"))
                break
            if col is not None:
                col.case((case["seed"], str(case["params"]), session, b.hex()), session != 1 or (reply is not None and reply[0] != 0x7F),
                         cls=f"direct/{'silent' if reply is None else 'negative' if reply[0] == 0x7F else 'positive'}",
                         sample={"seed": case["seed"], "session": session, "request": b.hex()[:60], "reply": None if reply is None else reply.hex()[:60]})
            if d.server.state.session not in d.model:
                out.append(("C14/session-not-offered", f"{ctx}: server moved to session {d.server.state.session:#x}, offered: {sorted(d.model)}"))
                break
            out += check_reply(b, reply, ctx)
    finally:
        d.close()
    return out


def run_stream(case: dict[str, Any], col: Collector | None) -> list[tuple[str, str]]:
    from gallia.services.uds.server import TCPUDSServerTransport
    from gallia.transports import TargetURI

    out: list[tuple[str, str]] = []

    async def go() -> None:
        server = vecu.make_server(case["seed"], case["params"], [])
        await server.setup()
        model = vecu.model_dict(server)
        tr = TCPUDSServerTransport(server, TargetURI("tcp-lines://127.0.0.1:1"))
        reader = asyncio.StreamReader(limit=2**17)
        writer = MemWriter()
        task = asyncio.get_event_loop().create_task(tr.handle_client(reader, writer))  # type: ignore[arg-type]
        prev: bytes | None = None
        last_seed: tuple[int, bytes] | None = None
        flat = [e for o in case["ops"] for e in (vecu.expand(tuple(o)) if o and o[0] != "bytes" else [o])]
        for step, o in enumerate(flat):
            session = server.state.session
            b = o[1] if o[0] == "bytes" else vecu.resolve(tuple(o), model, session, prev, last_seed)
            if not b:
                continue
            ctx = f"seed={case['seed']} step={step} session={session:#x} via=stream request={b.hex()[:60]}"
            n0 = len(writer.log)
            reader.feed_data(hexlify(b) + b"\n")
            for _ in range(6):
                await asyncio.sleep(0.001)
            if task.done():
                exc = task.exception() if not task.cancelled() else None
                out.append(("C14/stream/connection-dropped", f"{ctx}: handle_client ended ({exc!r})"))
                return
            data = b"".join(x for _, x in writer.log[n0:])
            lines = data.split(b"\n")
            if data and not data.endswith(b"\n") or len([x for x in lines if x]) > 1:
                out.append(("C14/stream/reply-framing", f"{ctx}: wrote {data!r:.120}"))
                return
            reply = unhexlify(lines[0]) if data else None
            prev = b
            last_seed = vecu.next_last_seed(last_seed, b, reply)
            if col is not None:
                col.case((case["seed"], str(case["params"]), session, b.hex(), "s"), session != 1 or (reply is not None and reply[0] != 0x7F),
                         cls=f"stream/{'silent' if reply is None else 'negative' if reply[0] == 0x7F else 'positive'}")
            if reply is None and not (b[0] in vecu.SUBFN_SIDS and len(b) >= 2 and b[1] >= 0x80):
                out.append(("C14/stream/no-reply-line", f"{ctx}: no reply line for a request without suppress bit"))
            if server.state.session not in model:
                out.append(("C14/session-not-offered", f"{ctx}: server moved to session {server.state.session:#x}"))
                return
            out.extend(check_reply(b, reply, ctx))
        reader.feed_eof()
        try:
            await asyncio.wait_for(task, 1)
        except Exception:  # noqa: BLE001
            pass

    status, val, _ = run_virtual(go, max_virtual=1e5)
    if status != "ok":
        out.append((f"C14/stream/harness-{status}", f"{val!r}"))
    return out


def check(case: dict[str, Any]) -> list[tuple[str, str]]:
    return run_case(case, None)


def shards(tier: str) -> list[dict[str, Any]]:
    if tier == "quick":
        return [{"what": "gen", "n": 600} for _ in range(12)] + [{"what": "handlers", "seeds": list(range(i, 160, 4))} for i in range(4)] + \
            [{"what": "dtc", "seeds": list(range(i, 3200, 4))} for i in range(4)]
    return [{"what": "gen", "n": 4000} for _ in range(12)] + [{"what": "handlers", "seeds": list(range(i, 2000, 4))} for i in range(4)] + \
        [{"what": "dtc", "seeds": list(range(i, 40000, 4))} for i in range(4)] + \
        [{"what": "atheris", "runs": 60000, "corpus": c} for c in ("empty", "valid")]


DENSE = {"p_session": 0.3, "p_service": 1.0, "p_sub_function": 0.3, "p_identifier": 1.0, "p_correct_payload_format": 1.0,
         "p_dtc_status_mask": 1.0, "optional_sessions": [2, 3]}


def handler_sweep(seed: int) -> dict[str, Any]:
    """Systematic probe of every offered (service, sub-function) pair of a dense model in every session reachable by one
    session change: each with a few payload shapes, with and without the suppress bit."""
    d = vecu.Driver(seed, DENSE, [])
    model = d.model
    d.close()
    ops: list[tuple[Any, ...]] = []
    tails = [b"", b"\x00", b"\x12\x34", b"\x12\x34\x56", b"\xf1\x86", b"\x00\x00\x01\xff"]
    for sess in [1] + [x for x in (model[1].get(0x10) or []) if x != 1][:3]:
        ops.append(("bytes", bytes([0x10, sess])))
        for sid, sfs in sorted(model.get(sess, {}).items()):
            if sfs is None:
                for t in tails:
                    ops.append(("bytes", bytes([sid]) + t))
            else:
                for sf in sorted(set(sfs[:10] + sfs[-2:] + [x for x in sfs if x in (0x7E, 0x7F, 0x40, 0x3F)])):
                    for t in tails[:4]:
                        ops.append(("bytes", bytes([sid, sf]) + t))
                    ops.append(("bytes", bytes([sid, sf | 0x80])))
                    if sid == 0x27 and sf % 2 == 1:
                        ops.append(("bytes", bytes([0x27, sf])))
                        ops.append(("seedkey", 0, False))
            ops.append(("bytes", bytes([0x10, sess])))
    return {"seed": seed, "params": DENSE, "via": "direct", "ops": ops}


def dtc_sweep(seed: int) -> dict[str, Any]:
    """Per-model random state that only a few requests read (the DTC table and its availability mask, drawn once per model and
    session): a light probe of the DTC services in every session one change away from the default, over many models."""
    d = vecu.Driver(seed, DENSE, [])
    model = d.model
    d.close()
    ops: list[tuple[Any, ...]] = []
    for sess in [1] + [x for x in (model[1].get(0x10) or []) if x != 1][:3]:
        ops += [("bytes", bytes([0x10, sess])), ("bytes", b"\x19\x02\xff"), ("bytes", b"\x19\x02\x01"), ("bytes", b"\x19\x0a"), ("bytes", b"\x19\x01\xff"),
                ("bytes", b"\x14\xff\xff\xff"), ("bytes", b"\x19\x02\xff")]
    return {"seed": seed, "params": DENSE, "via": "direct", "ops": ops}


def run_shard(spec: dict[str, Any], seed: int) -> Collector:
    col = Collector()
    if spec["what"] == "atheris":
        from vf.fuzz import run_atheris

        run_atheris(col, "c14", spec, seed)
        return col

    def body(case: dict[str, Any]) -> None:
        for b, m in run_case(case, col):
            col.violation(b, case, m)

    if spec["what"] == "dtc":
        for sd in spec["seeds"]:
            body(dtc_sweep(sd + 1000 * (seed % 7)))
        col.exhaustive_parts.append(f"{len(spec['seeds'])} dense models: the DTC services in the default session and up to three sessions next to it")
        return col
    if spec["what"] == "handlers":
        for sd in spec["seeds"]:
            body(handler_sweep(sd))
        col.exhaustive_parts.append(f"dense models for seeds {spec['seeds'][0]}..{spec['seeds'][-1]} step 4: every offered (service, sub-function) "
                                    "pair in every session one change away from the default, 5 payload shapes each")
        return col
    run_given(case_s(), body, spec["n"], seed)
    return col


# ---- atheris target: bytes -> (seed, history of raw requests)
def _decode(data: bytes) -> dict[str, Any] | None:
    if len(data) < 3:
        return None
    seed = data[0] % 16
    ops = []
    i = 1
    while i < len(data) and len(ops) < 12:
        n = data[i] % 9 + 1
        chunk = data[i + 1: i + 1 + n]
        i += 1 + n
        if chunk:
            ops.append(("bytes", chunk))
    if not ops:
        return None
    return {"seed": seed, "params": {"p_session": 0.3, "p_service": 0.6, "p_identifier": 0.5, "p_correct_payload_format": 0.8,
                                     "optional_sessions": [2, 3, 4]}, "via": "direct", "ops": ops}


def fuzz_one(data: bytes, col: Collector) -> None:
    case = _decode(data)
    if case is None:
        return
    for b, m in run_case(case, col):
        col.violation(b, case, m)


def fuzz_corpus(kind: str) -> list[bytes]:
    if kind == "empty":
        return []
    out = []
    for seed in range(4):
        for req in (b"\x10\x01", b"\x10\x02", b"\x22\xf1\x86", b"\x3e\x00", b"\x27\x01", b"\x31\x01\x12\x34", b"\x19\x02\xff", b"\x11\x01"):
            out.append(bytes([seed]) + bytes([len(req) - 1]) + req + bytes([1]) + b"\x10\x01")
    return out


def replay(witness: Any) -> list[tuple[str, str]]:
    w = unjson(witness)
    w["ops"] = [tuple(o) for o in w["ops"]]
    return run_case(w, None)


def shrink(bucket: str, witness: Any, seed: int) -> Any:
    return shrink_bucket(case_s(), lambda c: {b for b, _ in run_case(c, None)}, bucket, seed, max_examples=500)
