"""C04 - One client request ends with the outcome its reply/fault sequence implies."""

from __future__ import annotations

import asyncio
import itertools
from typing import Any

from hypothesis import strategies as st

from vf.core import Collector, run_given, shrink_bucket, unjson
from vf.vtime import run_virtual

PROPERTY = "C04"
LEVEL = "fault_enumeration"
RULE = (
    "Event scripts over {T timeout, C connection error, E empty read, B busyRepeatRequest, P responsePending, S pending-then-silence "
    "(silence lasts until the next transmission), M mismatching reply, Q responsePending naming another service, X malformed reply, N negative final, F positive final}, one "
    "event per transport read, silence after the script; x client max_retry 0..3 x per-request UDSRequestConfig overrides "
    "(max_retry, timeout). All scripts of length <= 3 (quick) / <= 5 (thorough) x max_retry 0..3 enumerated exhaustively, "
    "Hypothesis scripts up to length 12 with overrides, plus long runs: k pendings then a final reply, endless pendings, "
    "silence after a pending for timeouts 0.1/2/20/60 s, a final reply after k silent polls around the silence limit, several pendings whose silences each stay below the limit but add up to more. A reference retry/pending machine written from the statement predicts "
    "outcome, number of transmissions, reconnects; history invariant: no transmission while pending. Virtual time. "
    "A second request profile (session change with suppress bit that the ECU ignores) runs the same scripts; event w = seconds of silence independent of the polling rhythm, with request timeouts below the poll interval. "
    "Non-trivial: script contains a retry-worthy or pending event. Distinct by (script, max_retry, overrides)."
)
ASSUMPTIONS = [
    "scripted in-memory transport, virtual-time loop; a timeout event costs exactly the requested timeout",
    "limits are checked generously: endless pendings must end with an error within 10x120 replies, silence after a pending within "
    "3x max(timeout, 20 s) per attempt, a final reply after <= 100 pendings must be returned; the exact 119/120 boundary and "
    "busy after pending are abstentions",
    "pending-then-silence and a connection loss while pending are treated as retry-worthy events (retransmission when retries are left)",
]

REQ_DID = 0x1234
REPLY = {"B": bytes([0x7F, 0x22, 0x21]), "P": bytes([0x7F, 0x22, 0x78]), "S": bytes([0x7F, 0x22, 0x78]),
         "M": bytes([0x62, 0x99, 0x99, 0xAA]), "Q": bytes([0x7F, 0x31, 0x78]), "X": bytes([0x7F, 0x22, 0xEE]), "N": bytes([0x7F, 0x22, 0x31]),
         "F": bytes([0x62, 0x12, 0x34, 0xAA])}
# the same events for a second request: DiagnosticSessionControl(3) with the suppress bit, which the ECU does not honour
REPLY_DSC = {"B": bytes([0x7F, 0x10, 0x21]), "P": bytes([0x7F, 0x10, 0x78]), "S": bytes([0x7F, 0x10, 0x78]),
             "M": bytes([0x50, 0x05, 0x00, 0x32, 0x01, 0xF4]), "Q": bytes([0x7F, 0x31, 0x78]), "X": bytes([0x7F, 0x10, 0xEE]), "N": bytes([0x7F, 0x10, 0x22]),
             "F": bytes([0x50, 0x03, 0x00, 0x32, 0x01, 0xF4])}
ALPHABET = "TCEBPSMQXNF"


class ScriptTransport:
    def __init__(self, script: str, trace: list[tuple[str, float]]) -> None:
        from gallia.transports import TargetURI

        self.mutex = asyncio.Lock()
        self.target = TargetURI("tcp-lines://192.0.2.9:1")
        self.is_closed = False
        self.script = list(script)
        self.trace = trace
        self.shared = {"reconnects": 0, "pos": 0, "silent": False}
        self.table = REPLY
        self.wait_s = 0.0
        self.dead = False

    def _t(self) -> float:
        return asyncio.get_event_loop().time()

    @property
    def reconnects(self) -> int:
        return self.shared["reconnects"]

    async def write(self, data: bytes, timeout: float | None = None, tags: list[str] | None = None) -> int:
        if self.dead:
            self.trace.append(("write-on-obsolete-transport", self._t()))
            raise BrokenPipeError("obsolete transport object used after reconnect")
        self.trace.append(("write", self._t()))
        self.shared["silent"] = False
        return len(data)

    async def read(self, timeout: float | None = None, tags: list[str] | None = None) -> bytes:
        if self.dead:
            self.trace.append(("read-on-obsolete-transport", self._t()))
            raise BrokenPipeError("obsolete transport object used after reconnect")
        if self.shared["silent"] or self.shared["pos"] >= len(self.script):
            self.trace.append(("read:T", self._t()))
            if timeout is None:
                await asyncio.sleep(1e9)
            await asyncio.sleep(timeout)
            raise TimeoutError("script: silence")
        ev = self.script[self.shared["pos"]]
        if ev == "w":
            # the ECU is silent for wait_s seconds (however often it is polled meanwhile), then the next event arrives
            t0 = self.shared.setdefault("w_since", self._t())
            left = t0 + self.wait_s - self._t()
            if timeout is not None and timeout < left:
                self.trace.append(("read:T", self._t()))
                await asyncio.sleep(timeout)
                raise TimeoutError("script: quiet")
            await asyncio.sleep(max(0.0, left))
            self.shared.pop("w_since", None)
            self.shared["pos"] += 1
            ev = self.script[self.shared["pos"]]
        self.shared["pos"] += 1
        self.trace.append((f"read:{ev}", self._t()))
        if ev == "T":
            if timeout is None:
                await asyncio.sleep(1e9)
            await asyncio.sleep(timeout)
            raise TimeoutError("script")
        if ev == "C":
            raise ConnectionResetError("script")
        if ev == "E":
            return b""
        if ev == "S":
            self.shared["silent"] = True
        return self.table[ev]

    async def request_unsafe(self, data: bytes, timeout: float | None = None, tags: list[str] | None = None) -> bytes:
        await self.write(data, timeout, tags)
        return await self.read(timeout, tags)

    async def request(self, data: bytes, timeout: float | None = None, tags: list[str] | None = None) -> bytes:
        return await self.request_unsafe(data, timeout, tags)

    async def close(self) -> None:
        pass

    async def reconnect(self, timeout: float | None = None) -> "ScriptTransport":
        """As BaseTransport.reconnect() documents: a NEW instance is returned, the old one is obsolete."""
        self.trace.append(("reconnect", self._t()))
        new = ScriptTransport.__new__(ScriptTransport)
        new.__dict__.update(self.__dict__)
        new.mutex = asyncio.Lock()
        new.shared["reconnects"] += 1
        self.dead = True
        new.dead = False
        return new


def model(script: str, max_retry: int, timeout: float, wait_s: float = 0.0) -> dict[str, Any]:
    """Reference machine. Returns outcome kind/value, tx count, reconnect count, abstain flag, time bound."""
    ev = list(script)
    pos = 0
    silent = False
    tx = 0
    rec = 0
    bound = 0.0
    last = ("raise", "MissingResponse", None)
    abstain = False
    SIL = max(timeout, 20.0)  # current silence limit; the bound below is 3x this

    def nxt() -> str:
        nonlocal pos, silent
        if silent or pos >= len(ev):
            return "T"
        e = ev[pos]
        pos += 1
        if e == "S":
            silent = True
        return e

    for i in range(max_retry + 1):
        tx += 1
        silent = False
        e = nxt()
        if e == "T":
            bound += timeout
            last = ("raise", "MissingResponse", None)
            if i < max_retry:
                bound += 0.2 * 2 ** i
            continue
        if e in "CE":
            last = ("raise", "MissingResponse", "ConnectionError")
            if i < max_retry:
                bound += 0.2 * 2 ** i
                rec += 1
            continue
        if e in "MQ":
            return dict(kind="raise", value="RequestResponseMismatch", cause=None, tx=tx, rec=rec, abstain=abstain, bound=bound)
        if e == "X":
            return dict(kind="raise", value="MalformedResponse", cause=None, tx=tx, rec=rec, abstain=abstain, bound=bound)
        if e == "B":
            if i >= max_retry:
                return dict(kind="return", value=REPLY["B"], cause=None, tx=tx, rec=rec, abstain=abstain, bound=bound)
            bound += 0.2 * 2 ** i
            continue
        if e in "NF":
            return dict(kind="return", value=REPLY[e], cause=None, tx=tx, rec=rec, abstain=abstain, bound=bound)
        # pending
        n_pending = 1
        quiet = 0.0
        again = False
        while True:
            e = nxt()
            if e == "w":  # wait_s seconds of silence (below the limit by construction), then the next event
                quiet += wait_s
                bound += wait_s
                e = nxt()
                quiet = 0.0
            if e == "T":
                quiet += 0.5
                bound += 0.5
                if quiet >= SIL:
                    last = ("raise", "MissingResponse", None)
                    again = True
                    break
                continue
            quiet = 0.0
            if e in "CE":
                last = ("raise", "MissingResponse", "ConnectionError")
                if i < max_retry:
                    bound += 0.2 * 2 ** i
                    rec += 1
                again = True
                break
            if e in "MQ":
                return dict(kind="raise", value="RequestResponseMismatch", cause=None, tx=tx, rec=rec, abstain=abstain, bound=bound)
            if e == "X":
                return dict(kind="raise", value="MalformedResponse", cause=None, tx=tx, rec=rec, abstain=abstain, bound=bound)
            if e in "PS":
                n_pending += 1
                if n_pending >= 120:
                    return dict(kind="raise", value="ANY-ERROR", cause=None, tx=tx, rec=rec, abstain=True, bound=bound)
                continue
            if e == "B":
                # statement does not say whether busy after pending is retried: abstain on everything that follows
                return dict(kind="return", value=REPLY["B"], cause=None, tx=tx, rec=rec, abstain=True, bound=bound)
            return dict(kind="return", value=REPLY[e], cause=None, tx=tx, rec=rec, abstain=abstain, bound=bound)
        if again:
            continue
    return dict(kind=last[0], value=last[1], cause=last[2], tx=tx, rec=rec, abstain=abstain, bound=bound)


def run_real(script: str, client_retry: int, client_timeout: float, cfg_retry: int | None, cfg_timeout: float | None,
             max_virtual: float = 5e4, raw: bool = False, dsc: bool = False, wait_s: float = 0.0) -> dict[str, Any]:
    from gallia.services.uds.core import service
    from gallia.services.uds.core.client import UDSClient, UDSRequestConfig

    trace: list[tuple[str, float]] = []
    box: dict[str, Any] = {}

    async def go() -> Any:
        tr = ScriptTransport(script, trace)
        tr.wait_s = wait_s
        box["tr"] = tr
        cl = UDSClient(tr, timeout=client_timeout, max_retry=client_retry)  # type: ignore[arg-type]
        cfg = None
        if cfg_retry is not None or cfg_timeout is not None:
            cfg = UDSRequestConfig(timeout=cfg_timeout, max_retry=cfg_retry)
        if dsc:
            tr.table = REPLY_DSC
            return await cl.request(service.DiagnosticSessionControlRequest(3, suppress_response=True), cfg)
        if raw:  # the same bytes through send_raw(): the reply rules are the same, the request object is an opaque RawRequest
            return await cl.send_raw(bytes([0x22]) + REQ_DID.to_bytes(2, "big"), cfg)
        return await cl.request(service.ReadDataByIdentifierRequest(REQ_DID), cfg)

    status, val, dur = run_virtual(go, max_virtual=max_virtual)
    ret = None
    if status == "ok":
        ret = val.pdu
        if dsc:  # back to the event alphabet's reply bytes
            ret = {v: REPLY[k] for k, v in REPLY_DSC.items()}.get(bytes(ret), ret)
    return {"status": status, "val": val, "ret": ret, "dur": dur, "trace": trace, "rec": box["tr"].reconnects if "tr" in box else 0}


def check(case: dict[str, Any]) -> list[tuple[str, str]]:
    from gallia.services.uds.core.exception import MalformedResponse, MissingResponse, RequestResponseMismatch

    script = case["script"]
    if case.get("long"):
        script = _expand_long(case["long"])
    cr, ct = case["client_retry"], case["client_timeout"]
    cfr, cft = case.get("cfg_retry"), case.get("cfg_timeout")
    eff_retry = cfr if cfr is not None else cr
    eff_timeout = cft if cft is not None else ct
    m = model(script, eff_retry, eff_timeout, float(case.get("wait_s") or 0.0))
    lim = 3 * m["bound"] + 3 * max(eff_timeout, 20.0) * (eff_retry + 1) + 10
    r = run_real(script, cr, ct, cfr, cft, max_virtual=2 * lim + 100, raw=bool(case.get("raw")), dsc=bool(case.get("dsc")), wait_s=float(case.get("wait_s") or 0.0))
    out: list[tuple[str, str]] = []
    desc = f"script={_sd(case)} max_retry={cr}/{cfr} timeout={ct}/{cft}" + (" via send_raw" if case.get("raw") else "") + (" [10 83]" if case.get("dsc") else "")
    tx = sum(1 for k, _ in r["trace"] if k == "write")
    # ---- boundedness
    if r["status"] in ("stalled", "overrun"):
        return [(f"C04/unbounded/{r['status']}", f"{desc}: request did not finish ({r['status']}) after {r['dur']:.1f} virtual s, {tx} transmissions")]
    if r["dur"] > lim:
        out.append(("C04/too-slow", f"{desc}: took {r['dur']:.1f} virtual s, reference bound {lim:.1f}"))
    if any(k.endswith("-on-obsolete-transport") for k, _ in r["trace"]):
        out.append(("C04/obsolete-transport-used-after-reconnect", f"{desc}: {_tr(r['trace'])}"))
        return out
    # ---- never more than max_retry+1 transmissions, no transmission while pending
    if tx > eff_retry + 1:
        out.append(("C04/too-many-transmissions", f"{desc}: {tx} transmissions, max_retry+1 = {eff_retry + 1}"))
    # retransmission is legitimate only after the ECU has been silent for a while (the silence limit, currently
    # max(timeout, 20 s)); "a while" is taken generously as >= 2 s so that a change of the constant is not an alarm
    pending = False
    quiet_since = 0.0
    for k, t_ in r["trace"]:
        if k == "write":
            if pending and t_ - quiet_since < 2.0:
                out.append(("C04/transmission-while-pending", f"{desc}: request retransmitted while a responsePending was outstanding: {_tr(r['trace'])}"))
                break
            pending = False
        elif k in ("read:P", "read:S"):
            pending = True
            quiet_since = t_
        elif k == "read:T":
            pass
        elif k.startswith("read:"):
            pending = False
        elif k == "reconnect":
            pending = False
    if out:
        return out
    # ---- outcome
    if r["status"] == "ok":
        got_kind, got_val = "return", r["ret"]
    else:
        e = r["val"]
        got_kind = "raise"
        if isinstance(e, MissingResponse):
            got_val = "MissingResponse"
        elif isinstance(e, RequestResponseMismatch):
            got_val = "RequestResponseMismatch"
        elif isinstance(e, MalformedResponse):
            got_val = "MalformedResponse"
        else:
            got_val = f"other:{type(e).__name__}"
    if m["abstain"]:
        if m["value"] == "ANY-ERROR" and got_kind != "raise":
            # >= 120 pendings: at most 10x the current limit may be tolerated, afterwards an error is required
            npend = sum(1 for k, _ in r["trace"] if k in ("read:P", "read:S"))
            if npend > 1200:
                out.append(("C04/endless-pending-not-ended", f"{desc}: {npend} pendings consumed and a reply returned"))
        return out
    if (got_kind, got_val) != (m["kind"], m["value"]):
        ek = m["value"] if m["kind"] == "raise" else "return-" + _name(m["value"])
        gk = got_val if got_kind == "raise" else "return-" + _name(got_val)
        if got_kind == "raise" and isinstance(r["val"], ConnectionError) and _connloss_in_pending(r["trace"]):
            # one root cause whatever the rest of the script would have produced
            bucket = "C04/connection-error-escapes-while-pending"
        else:
            bucket = f"C04/outcome/{gk}-instead-of-{ek}/{_shape(script)}"
        out.append((bucket, f"{desc}: got {gk}, reference machine says {ek}; trace {_tr(r['trace'])}"))
        return out
    if m["kind"] == "raise" and m["value"] == "MissingResponse" and m["cause"] == "ConnectionError":
        if not isinstance(r["val"].__cause__, ConnectionError):
            out.append(("C04/missing-response-without-cause", f"{desc}: last event was a connection error but __cause__ is {r['val'].__cause__!r}"))
    if tx != m["tx"]:
        out.append((f"C04/transmissions/{'more' if tx > m['tx'] else 'fewer'}/{_shape(script)}", f"{desc}: {tx} transmissions, reference machine says {m['tx']}; trace {_tr(r['trace'])}"))
    if r["rec"] != m["rec"]:
        out.append((f"C04/reconnects/{'more' if r['rec'] > m['rec'] else 'fewer'}", f"{desc}: {r['rec']} reconnects, reference machine says {m['rec']}"))
    return out


def _connloss_in_pending(trace: list[tuple[str, float]]) -> bool:
    """the last consumed event is a connection error / empty read and a pending reply precedes it in the same attempt"""
    reads = [k for k, _ in trace]
    if not reads or reads[-1] not in ("read:C", "read:E"):
        return False
    for k in reversed(reads[:-1]):
        if k == "write":
            return False
        if k in ("read:P", "read:S"):
            return True
    return False


def _name(v: bytes) -> str:
    return {REPLY["B"]: "busy", REPLY["N"]: "negative", REPLY["F"]: "positive"}.get(bytes(v), bytes(v).hex())


def _shape(script: str) -> str:
    """coarse shape for bucketing: which special features the script has"""
    f = []
    if "P" in script or "S" in script:
        f.append("pending")
        i = min(script.find(c) for c in "PS" if c in script)
        rest = script[i + 1:]
        if any(c in rest[:1] for c in "CE"):
            f.append("connloss-while-pending")
    if "B" in script:
        f.append("busy")
    return "+".join(f) or "plain"


def _tr(trace: list[tuple[str, float]]) -> str:
    s = " ".join(f"{k}@{t:.1f}" for k, t in trace[:40])
    return s + (" .." if len(trace) > 40 else "")


def _sd(case: dict[str, Any]) -> str:
    return case["script"] if not case.get("long") else str(case["long"])


def _expand_long(spec: list[Any]) -> str:
    kind = spec[0]
    if kind == "pend-final":
        return "P" * spec[1] + spec[2]
    if kind == "endless":
        return "P" * 3000
    if kind == "silence":
        return "S"
    if kind == "pend-quiet-final":
        return "P" + "T" * spec[1] + spec[2]
    if kind == "pend-wait":  # a pending, spec[1] seconds of silence whatever the polling rhythm, then the final reply
        return "Pw" + spec[2]
    if kind == "pend-gaps":  # several pendings, each followed by a silence shorter than the limit; the silences add up to more
        return "P" + ("T" * spec[1] + "P") * spec[2] + "T" * spec[1] + spec[3]
    raise AssertionError(kind)


@st.composite
def case_s(draw) -> dict[str, Any]:
    script = draw(st.text(alphabet=ALPHABET, min_size=0, max_size=12))
    return {"script": script, "client_retry": draw(st.integers(0, 3)), "client_timeout": draw(st.sampled_from([0.1, 2.0, 5.0])),
            "cfg_retry": draw(st.one_of(st.none(), st.integers(0, 3))),
            "cfg_timeout": draw(st.one_of(st.none(), st.sampled_from([0.1, 1.0, 25.0]))), "raw": draw(st.sampled_from([False, False, True])), "dsc": draw(st.integers(0, 3)) == 0}


def nontrivial(case: dict[str, Any]) -> bool:
    s = case["script"] if not case.get("long") else "P"
    return any(c in s for c in "TCEBPS") or s == ""


def shards(tier: str) -> list[dict[str, Any]]:
    L = 3 if tier == "quick" else 5
    out = [{"what": "exh", "maxlen": L, "first": c} for c in ALPHABET]
    out.append({"what": "exh", "maxlen": 0, "first": ""})
    out += [{"what": "gen", "n": 600 if tier == "quick" else 40000} for _ in range(4 if tier == "quick" else 6)]
    out.append({"what": "long"})
    return out


def run_shard(spec: dict[str, Any], seed: int) -> Collector:
    col = Collector()

    def body(case: dict[str, Any]) -> None:
        res = check(case)
        col.case((_sd(case), case["client_retry"], case.get("cfg_retry"), case["client_timeout"], case.get("cfg_timeout"), bool(case.get("raw")), bool(case.get("dsc"))),
                 nontrivial(case), cls=("long" if case.get("long") else f"len{min(len(case['script']), 5)}"
                                        + ("+override" if case.get("cfg_retry") is not None or case.get("cfg_timeout") is not None else "")),
                 sample={**case, "reference": {k: (v.hex() if isinstance(v, bytes) else v) for k, v in
                                                model(case["script"] if not case.get("long") else _expand_long(case["long"]),
                                                      case.get("cfg_retry") if case.get("cfg_retry") is not None else case["client_retry"],
                                                      case.get("cfg_timeout") or case["client_timeout"], float(case.get("wait_s") or 0.0)).items()}})
        for b, m in res:
            col.violation(b, case, m)

    w = spec["what"]
    if w == "exh":
        first = spec["first"]
        if spec["maxlen"] == 0:
            scripts = [""]
        else:
            scripts = [first + "".join(t) for n in range(0, spec["maxlen"]) for t in itertools.product(ALPHABET, repeat=n)]
        for s in scripts:
            for mr in range(4):
                body({"script": s, "client_retry": mr, "client_timeout": 2.0, "cfg_retry": None, "cfg_timeout": None})
            if "M" in s or "F" in s:
                body({"script": s, "client_retry": 1, "client_timeout": 2.0, "cfg_retry": None, "cfg_timeout": None, "raw": True})
                body({"script": s, "client_retry": 1, "client_timeout": 2.0, "cfg_retry": None, "cfg_timeout": None, "dsc": True})
        col.exhaustive_parts.append(f"all scripts of length <= {max(spec['maxlen'], 0)} starting with '{first}' x max_retry 0..3")
        return col
    if w == "gen":
        run_given(case_s(), body, spec["n"], seed)
        return col
    if w == "long":
        for mr in (0, 1, 3):
            for k in (1, 2, 10, 50, 100):
                for fin in "FNXM":
                    body({"script": "", "long": ["pend-final", k, fin], "client_retry": mr, "client_timeout": 2.0, "cfg_retry": None, "cfg_timeout": None})
            body({"script": "", "long": ["endless"], "client_retry": mr, "client_timeout": 2.0, "cfg_retry": None, "cfg_timeout": None})
            for to in (0.1, 2.0, 20.0, 60.0):
                body({"script": "", "long": ["silence"], "client_retry": mr, "client_timeout": to, "cfg_retry": None, "cfg_timeout": None})
                body({"script": "", "long": ["silence"], "client_retry": mr, "client_timeout": 2.0, "cfg_retry": None, "cfg_timeout": to})
        # a final reply after k silent polls behind a ResponsePending, around the silence limit of the timeout that applies to the
        # request (the per-request override where there is one)
        for mr in (0, 1):
            for ct, cft in ((2.0, None), (30.0, None), (1.0, 30.0), (30.0, 1.0), (25.0, 40.0)):
                eff = cft if cft is not None else ct
                lim = int(max(eff, 20.0) / 0.5)
                for k in sorted({1, 39, 40, 41, lim - 1, lim, lim + 1, 45, 59, 60}):
                    for fin in "FN":
                        body({"script": "", "long": ["pend-quiet-final", k, fin], "client_retry": mr, "client_timeout": ct, "cfg_retry": None, "cfg_timeout": cft})
                # the silence limit is a time (max(timeout, 20 s)), not a number of polls: short request timeouts do not shorten it
                for w_ in (3.0, 11.0, 19.0):
                    for ct_ in (0.1, 0.3, ct):
                        body({"script": "", "long": ["pend-wait", w_, "F"], "wait_s": w_, "client_retry": mr, "client_timeout": ct_, "cfg_retry": None, "cfg_timeout": None})
                # every single silence stays below the limit, their sum does not: each pending starts a new wait
                for gap, cnt in ((lim // 2 + 1, 1), (lim // 3 + 1, 2), (lim - 1, 3), (7, 9)):
                    for fin in "FN":
                        body({"script": "", "long": ["pend-gaps", gap, cnt, fin], "client_retry": mr, "client_timeout": ct, "cfg_retry": None, "cfg_timeout": cft})
        return col
    raise AssertionError(w)


def replay(witness: Any) -> list[tuple[str, str]]:
    return check(unjson(witness))


def shrink(bucket: str, witness: Any, seed: int) -> Any:
    w = unjson(witness)
    if w.get("long"):
        return None
    return shrink_bucket(case_s(), lambda c: {b for b, _ in check(c)}, bucket, seed, max_examples=3000)
