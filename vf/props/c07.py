"""C07 - HSFZ: frames are demultiplexed correctly under any segmentation and interleaving."""

from __future__ import annotations

import asyncio
import struct
from typing import Any

from hypothesis import strategies as st

from vf.core import Collector, run_given, shrink_bucket, unjson
from vf.demux import OpRecord, Wire, run_program
from vf.vtime import MemWriter, run_virtual

PROPERTY = "C07"
LEVEL = "exploration"
RULE = (
    "A case is (tester/ECU address pair, ack timeout, client program of write(payload)/read(timeout)/sleep ops, a reactive gateway "
    "script: for the k-th client write a list of (delay, frame) over the HSFZ gateway alphabet {exact ack, ack with wrong echo / "
    "wrong pair / truncated echo, data for this pair, data for another pair, alive check with arbitrary payload, short frames with "
    "Len 0/1 for any control word, error control words 0x40..0x45/0xFF, status/unknown control words}, unsolicited frames at "
    "generated instants, split points of the byte stream). The real HSFZConnection/HSFZTransport runs over in-memory streams under "
    "virtual time; the wire scheduler records when each frame was completely delivered and a post-hoc reference demultiplexer "
    "decides each operation from its actual start time: write completes iff an ack with the tester's pair echoing request[:5] "
    "arrives within the ack timeout; reads return payloads of ECU->tester data frames in arrival order, nothing lost (drain reads at "
    "the end); every alive check is answered at the instant it arrived with 00 00 00 02 00 12 <src as 2 bytes>; an error control "
    "Some cases let drain() suspend (slow gateway) and place the acknowledgement just inside / outside the acknowledgement time counted from the hand-over. "
    "word fails the pending/next operation with a ConnectionError and closes the connection. Non-trivial: the stream contains a "
    "frame that is not the awaited one, or a split inside a frame. Distinct by case."
)
ASSUMPTIONS = [
    "the gateway and TCP are modelled at the asyncio StreamReader boundary; frames of one instant are delivered in emission order",
    "status and unknown control words are an abstention: the case is only checked up to the operation that meets one",
    "after the connection has been closed by the client the program stops (behaviour on a closed connection is C08's subject)",
]

ERR_WORDS = [0x40, 0x41, 0x42, 0x43, 0x44, 0x45, 0xFF]
STATUS_WORDS = [0x10, 0x11, 0x13, 0x77, 0x03]


def hsfz(cword: int, body: bytes) -> bytes:
    return struct.pack("!IH", len(body), cword) + body


def _pair(fr: dict[str, Any], src: int, dst: int, ack: bool) -> tuple[int, int]:
    """address bytes of a frame that is NOT for our pair: random, or differing from ours in exactly one address"""
    ours = (src, dst) if ack else (dst, src)
    how = fr.get("pair", "rand")
    a, b = fr["a"], fr["b"]
    if how == "first-only-differs":
        a, b = (ours[0] + 1 + a % 7) & 0xFF, ours[1]
    elif how == "second-only-differs":
        a, b = ours[0], (ours[1] + 1 + b % 7) & 0xFF
    elif how == "swapped" and src != dst:
        a, b = ours[1], ours[0]
    if (a, b) == ours:
        a = (a + 1) & 0xFF
    return a, b


def enc(fr: dict[str, Any], src: int, dst: int, req: bytes | None) -> bytes:
    t = fr["t"]
    if t == "ack":
        return hsfz(2, bytes([src, dst]) + (req or b"")[:5])
    if t == "ack-wrong-echo":
        e = bytearray((req or b"\x00")[:5])
        e[fr.get("i", 0) % len(e)] ^= 0x55
        return hsfz(2, bytes([src, dst]) + bytes(e))
    if t == "ack-short-echo":
        return hsfz(2, bytes([src, dst]) + (req or b"")[:5][: fr.get("n", 1)])
    if t == "ack-long-echo":
        return hsfz(2, bytes([src, dst]) + (req or b"")[:5] + b"\x00")
    if t == "ack-wrong-pair":
        return hsfz(2, bytes(_pair(fr, src, dst, ack=True)) + (req or b"")[:5])
    if t == "data":
        return hsfz(1, bytes([dst, src]) + fr["p"])
    if t == "data-other":
        return hsfz(1, bytes(_pair(fr, src, dst, ack=False)) + fr["p"])
    if t == "alive":
        return hsfz(0x12, fr["p"])
    if t == "short":
        return hsfz(fr["cw"], fr["p"][:1])
    if t == "ctrl":
        return hsfz(fr["cw"], fr["p"])
    raise AssertionError(t)


def classify(fr: dict[str, Any], src: int, dst: int, req: bytes | None) -> dict[str, Any]:
    """What the frame IS for the reference demultiplexer (decided from its bytes, not from its label)."""
    raw = enc(fr, src, dst, req)
    ln, cw = struct.unpack("!IH", raw[:6])
    body = raw[6:]
    if cw == 0x12:
        return {"k": "alive"}
    if cw in (1, 2):
        if ln < 2:
            return {"k": "ignored"}
        a, b, payload = body[0], body[1], body[2:]
        if cw == 1:
            return {"k": "data", "mine": (a, b) == (dst, src), "p": payload}
        return {"k": "ack", "mine": (a, b) == (src, dst), "echo": payload}
    if cw in ERR_WORDS:
        return {"k": "error", "cw": cw}
    return {"k": "status", "cw": cw}


# an empty payload is a legal data frame (Len == 2: address header only)
payload_s = st.one_of(st.binary(min_size=1, max_size=6), st.binary(min_size=1, max_size=40), st.binary(min_size=0, max_size=3), st.just(b""))
addr = st.integers(0, 255)


@st.composite
def frame_s(draw, reactive: bool) -> dict[str, Any]:
    kinds = ["data", "data", "data-other", "alive", "short", "ctrl-err", "ctrl-status"]
    if reactive:
        kinds += ["ack", "ack", "ack", "ack", "ack-wrong-echo", "ack-short-echo", "ack-long-echo", "ack-wrong-pair"]
    k = draw(st.sampled_from(kinds))
    if k in ("ack", "ack-long-echo"):
        return {"t": k}
    if k == "ack-wrong-echo":
        return {"t": k, "i": draw(st.integers(0, 4))}
    if k == "ack-short-echo":
        return {"t": k, "n": draw(st.integers(0, 4))}
    pair = draw(st.sampled_from(["rand", "first-only-differs", "second-only-differs", "swapped"]))
    if k == "ack-wrong-pair":
        return {"t": k, "a": draw(addr), "b": draw(addr), "pair": pair}
    if k == "data":
        return {"t": "data", "p": draw(payload_s)}
    if k == "data-other":
        return {"t": "data-other", "a": draw(addr), "b": draw(addr), "pair": pair, "p": draw(payload_s)}
    if k == "alive":
        return {"t": "alive", "p": draw(st.binary(max_size=4))}
    if k == "short":
        return {"t": "short", "cw": draw(st.sampled_from([1, 2, 0x12, 1, 2])), "p": draw(st.binary(max_size=1))}
    if k == "ctrl-err":
        return {"t": "ctrl", "cw": draw(st.sampled_from(ERR_WORDS)), "p": draw(st.binary(max_size=3))}
    return {"t": "ctrl", "cw": draw(st.sampled_from(STATUS_WORDS)), "p": draw(st.binary(max_size=3))}


DELAYS = [1, 1, 2, 5, 10, 30, 77, 130]


@st.composite
def case_s(draw) -> dict[str, Any]:
    src, dst = draw(st.sampled_from([(0xF4, 0x10), (0xF4, 0x10), (0x01, 0xFF), (0x10, 0x10)]))
    nops = draw(st.integers(1, 8))
    program: list[list[Any]] = []
    for _ in range(nops):
        k = draw(st.sampled_from(["write", "write", "read", "read", "sleep"]))
        if k == "write":
            # first byte = running number: acks echo request[:5], so a stale duplicate ack can never match a later write
            nw = sum(1 for o in program if o[0] == "write")
            program.append(["write", bytes([0x10 + nw]) + draw(st.one_of(st.binary(max_size=3), st.binary(min_size=4, max_size=11)))])
            # a caller timeout longer than the acknowledgement time does not change anything: the acknowledgement deadline decides
            wt = draw(st.sampled_from([None, None, 2.3701, 6.0701]))
            if wt is not None:
                program[-1].append(wt)
        elif k == "read":
            program.append(["read", draw(st.sampled_from([0.3701, 1.3701, 0.0701, 3.3701]))])
        else:
            program.append(["sleep", draw(st.sampled_from([0.0501, 0.2501, 1.1001]))])
    nwrites = sum(1 for o in program if o[0] == "write")
    reactions = []
    for _ in range(nwrites):
        lst = draw(st.lists(st.tuples(st.sampled_from(DELAYS), frame_s(True)), max_size=5))
        # most writes should be acknowledged, otherwise every case ends at the first write
        if draw(st.integers(0, 9)) < 8 and not any(f["t"] == "ack" for _, f in lst):
            lst.insert(draw(st.integers(0, len(lst))), (draw(st.sampled_from(DELAYS[:5])), {"t": "ack"}))
        reactions.append([[d, f] for d, f in lst])
    unsolicited = [[t, f] for t, f in draw(st.lists(st.tuples(st.integers(1, 250), frame_s(False)), max_size=4))]
    slow = 0.0
    ack_timeout = draw(st.sampled_from([0.5, 1.0, 0.2]))
    if draw(st.integers(0, 11)) == 0:
        # the gateway takes the request off the connection slowly (drain() suspends for a while) and acknowledges it within the
        # acknowledgement time counted from then on - or just too late
        slow = draw(st.sampled_from([0.3001, 0.6001]))
        late = draw(st.integers(0, 3)) == 0
        ticks = int(round((slow + ack_timeout * (1.3 if late else draw(st.sampled_from([0.5, 0.8, 0.95])))) / 0.01))
        program = [["write", bytes([0x10]) + draw(st.binary(min_size=1, max_size=8))], ["read", 0.3701]]
        reactions = [[[ticks, {"t": "ack"}]]]
        unsolicited = []
    return {"src": src, "dst": dst, "ack_timeout": ack_timeout, "program": program, "reactions": reactions,
            "unsolicited": unsolicited, "splits": draw(st.lists(st.integers(0, 200), max_size=8)), "slow_drain": slow}


def run_case(case: dict[str, Any]) -> dict[str, Any]:
    from gallia.transports import TargetURI
    from gallia.transports.hsfz import HSFZConfig, HSFZConnection, HSFZTransport

    src, dst = case["src"], case["dst"]
    ops: list[OpRecord] = []
    box: dict[str, Any] = {}

    async def go() -> None:
        loop = asyncio.get_event_loop()
        reader = asyncio.StreamReader()
        wire = Wire(reader, case["splits"])
        box["wire"] = wire
        client_writes: list[tuple[float, bytes]] = []
        alive_replies: list[tuple[float, bytes]] = []
        box["client_writes"] = client_writes
        box["alive_replies"] = alive_replies
        box["reqs"] = []

        def on_write(b: bytes) -> None:
            if len(b) >= 6 and struct.unpack("!H", b[4:6])[0] == 1:
                k = len(client_writes)
                req = b[8:]
                client_writes.append((loop.time(), b))
                box["reqs"].append(req)
                if k < len(case["reactions"]):
                    for d, fr in case["reactions"][k]:
                        wire.emit(d, enc(fr, src, dst, req), {"frame": fr, "req": req, "reaction_to": k})
            else:
                alive_replies.append((loop.time(), b))

        from vf.props.c06 import SlowWriter

        writer = SlowWriter(on_write)
        writer.drain_delay, writer.slow_min = case.get("slow_drain") or 0.0, 0
        box["writer"] = writer
        for t, fr in case["unsolicited"]:
            wire.emit(t, enc(fr, src, dst, None), {"frame": fr, "req": None, "reaction_to": None})
        conn = HSFZConnection(reader, writer, src, dst, case["ack_timeout"])  # type: ignore[arg-type]
        tr = HSFZTransport(TargetURI(f"hsfz://192.0.2.1:6801?src_addr={src}&dst_addr={dst}"), 6801,
                           HSFZConfig(src_addr=str(src), dst_addr=str(dst), ack_timeout=int(case["ack_timeout"] * 1000)), conn)
        box["conn"] = conn
        await run_program(tr, case["program"], ops, drain_reads=12, drain_timeout=4.0701)
        box["closed"] = conn._closed if hasattr(conn, "_closed") else None
        wire.closed = True
        try:
            await conn.close()
        except Exception:  # noqa: BLE001
            pass

    status, val, dur = run_virtual(go, max_virtual=1e4)
    return {"status": status, "val": val, "ops": ops, "box": box, "dur": dur}


@st.composite
def eof_case_s(draw) -> dict[str, Any]:
    """The gateway acknowledges a request, forwards 1-3 data frames (other frames in between) and then closes the connection; the
    client reads only after all of that has arrived."""
    src, dst = draw(st.sampled_from([(0xF4, 0x10), (0x10, 0xF4), (0x01, 0xFF)]))
    n = draw(st.integers(1, 3))
    frames: list[dict[str, Any]] = [{"t": "ack"}]
    for i in range(n):
        if draw(st.integers(0, 2)) == 0:
            frames.append(draw(st.sampled_from([{"t": "alive", "p": b""}, {"t": "data-other", "a": 1, "b": 2, "pair": "rand", "p": b"\x01"}])))
        frames.append({"t": "data", "p": bytes([0x62, i]) + draw(st.binary(max_size=5))})
    return {"kind": "eof", "src": src, "dst": dst, "frames": frames, "pause": draw(st.sampled_from([0.0501, 0.5001, 1.1001])), "ack_timeout": 1.0,
            "splits": draw(st.lists(st.integers(0, 120), max_size=4)), "request": bytes([0x22]) + draw(st.binary(min_size=2, max_size=4))}


def check_eof(case: dict[str, Any]) -> list[tuple[str, str]]:
    from gallia.transports import TargetURI
    from gallia.transports.hsfz import HSFZConfig, HSFZConnection, HSFZTransport

    src, dst = case["src"], case["dst"]
    got: list[tuple[str, Any]] = []

    async def go() -> None:
        loop = asyncio.get_event_loop()
        reader = asyncio.StreamReader()
        wire = Wire(reader, case["splits"])

        def on_write(b: bytes) -> None:
            if len(b) >= 6 and struct.unpack("!H", b[4:6])[0] == 1:
                for i, fr in enumerate(case["frames"]):
                    wire.emit(1 + i, enc(fr, src, dst, b[8:]), {"frame": fr, "req": b[8:], "reaction_to": 0})
                loop.call_later((len(case["frames"]) + 3) * 0.01, reader.feed_eof)

        writer = MemWriter(on_write)
        conn = HSFZConnection(reader, writer, src, dst, case["ack_timeout"])  # type: ignore[arg-type]
        tr = HSFZTransport(TargetURI(f"hsfz://192.0.2.1:6801?src_addr={src}&dst_addr={dst}"), 6801,
                           HSFZConfig(src_addr=str(src), dst_addr=str(dst), ack_timeout=int(case["ack_timeout"] * 1000)), conn)
        await tr.write(case["request"], timeout=None)
        await asyncio.sleep(case["pause"])
        for _ in range(len(case["frames"]) + 1):
            try:
                got.append(("ok", await tr.read(timeout=2.3701)))
            except TimeoutError:
                got.append(("timeout", None))
                break
            except ConnectionError as e:
                got.append(("connerr", repr(e)))
                break
            except Exception as e:  # noqa: BLE001
                got.append((f"exc:{type(e).__name__}", repr(e)))
                break
        wire.closed = True
        try:
            await conn.close()
        except Exception:  # noqa: BLE001
            pass

    status, val, _ = run_virtual(go, max_virtual=1e4)
    if status != "ok":
        return [(f"C07/eof/run-{status}", f"{val!r}; reads so far {got}")]
    want = [("ok", fr["p"]) for fr in case["frames"] if fr["t"] == "data"]
    have = [(k, v) for k, v in got if k == "ok"]
    if have != want:
        return [("C07/read/received-messages-lost-at-end-of-stream", f"gateway sent {[w[1].hex() for w in want]} and closed; after a pause of {case['pause']} s the reads gave "
                 f"{[(k, v.hex() if isinstance(v, bytes) else v) for k, v in got]}")]
    if not got or got[-1][0] != "connerr":
        return [("C07/read/end-of-stream-not-reported", f"reads gave {[(k, v.hex() if isinstance(v, bytes) else v) for k, v in got]}")]
    return []


def check(case: dict[str, Any]) -> list[tuple[str, str]]:
    if case.get("kind") == "eof":
        return check_eof(case)
    r = run_case(case)
    if r["status"] != "ok":
        return [(f"C07/run-{r['status']}", f"program did not finish: {r['status']} {r['val']!r}; ops so far {[(o.kind, o.outcome) for o in r['ops']]}")]
    src, dst = case["src"], case["dst"]
    wire: Wire = r["box"]["wire"]
    frames = sorted(wire.frames, key=lambda f: f.seq)
    cls = [classify(f.meta["frame"], src, dst, f.meta["req"]) for f in frames]
    out: list[tuple[str, str]] = []
    # ---- H3 alive checks answered at once with the tester address
    expect_alive = struct.pack("!IH", 2, 0x12) + struct.pack("!H", src)
    replies = list(r["box"]["alive_replies"])
    first_ctrl = next((f.seq for f, c in zip(frames, cls) if c["k"] in ("error", "status")), 10**9)
    for f, c in zip(frames, cls):
        if c["k"] != "alive" or f.seq > first_ctrl:
            continue  # after an error/status word the client may already have closed the connection
        if r["ops"] and f.t_done > r["ops"][-1].t1 - 0.005:
            continue  # arrives after (or in a tie with) the end of the program / the instant the client closed the connection
        hit = [x for x in replies if abs(x[0] - f.t_done) < 1e-6]
        if not hit:
            out.append(("C07/alive-check/not-answered-immediately", f"alive check complete at t={f.t_done:.3f}; replies at {[round(x[0], 3) for x in replies]}; {_desc(case)}"))
            return out
        if hit[0][1] != expect_alive:
            out.append(("C07/alive-check/wrong-reply", f"reply {hit[0][1].hex()} expected {expect_alive.hex()}"))
            return out
        replies.remove(hit[0])
    # ---- reference demultiplexer, operation by operation
    consumed: set[int] = set()
    closed = False
    for oi, op in enumerate(r["ops"]):
        if op.kind == "sleep":
            continue
        if closed:
            break
        t0 = op.t0
        if op.kind == "write":
            req = bytes(op.arg)
            # the acknowledgement time runs from the moment the request has been handed over (a slowly reading gateway delays that)
            t0 = t0 + (case.get("slow_drain") or 0.0)
            deadline = t0 + case["ack_timeout"]
            exp = ("connerr", deadline)
            for i, (f, c) in enumerate(zip(frames, cls)):
                if i in consumed or f.t_done >= deadline:
                    continue
                if c["k"] == "status":
                    exp = ("abstain", 0.0)
                    break
                if c["k"] == "error":
                    exp = ("connerr", max(t0, f.t_done))
                    consumed.add(i)
                    break
                if c["k"] == "ack" and c["mine"] and c["echo"] == req[:5]:
                    exp = ("ok", max(t0, f.t_done))
                    consumed.add(i)
                    break
            if exp[0] == "abstain":
                return out
            what = f"write #{oi} {req.hex()} at t={t0:.3f}"
            if op.outcome != exp[0]:
                out.append((f"C07/write/{op.outcome.split(':')[0]}-instead-of-{exp[0]}", f"{what}: got {op.outcome} {op.detail} at t={op.t1:.3f}, reference says {exp[0]} at t={exp[1]:.3f}; {_desc(case)}"))
                return out
            if abs(op.t1 - exp[1]) > 2e-3:
                out.append((f"C07/write/{exp[0]}-at-wrong-time", f"{what}: finished at t={op.t1:.3f}, reference says t={exp[1]:.3f}; {_desc(case)}"))
                return out
            if exp[0] == "connerr":
                closed = True
                if r["box"].get("closed") is False:
                    out.append(("C07/write/connection-left-open-after-error", f"{what}: {_desc(case)}"))
        else:
            deadline = t0 + op.arg
            exp2: tuple[str, float, bytes | None] = ("timeout", deadline, None)
            for i, (f, c) in enumerate(zip(frames, cls)):
                if i in consumed or f.t_done >= deadline:
                    continue
                if c["k"] == "status":
                    exp2 = ("abstain", 0.0, None)
                    break
                if c["k"] == "error":
                    exp2 = ("connerr", max(t0, f.t_done), None)
                    consumed.add(i)
                    break
                if c["k"] == "data" and c["mine"]:
                    exp2 = ("ok", max(t0, f.t_done), c["p"])
                    consumed.add(i)
                    break
            if exp2[0] == "abstain":
                return out
            what = f"read #{oi} (timeout {op.arg}) at t={t0:.3f}"
            if op.outcome != exp2[0]:
                out.append((f"C07/read/{op.outcome.split(':')[0]}-instead-of-{exp2[0]}", f"{what}: got {op.outcome} {op.detail} {_h(op.value)} at t={op.t1:.3f}, reference says {exp2[0]} {_h(exp2[2])} at t={exp2[1]:.3f}; {_desc(case)}"))
                return out
            if exp2[0] == "ok" and op.value != exp2[2]:
                mine = [c["p"] for c in cls if c["k"] == "data" and c["mine"]]
                kind = "out-of-order" if op.value in mine else "fabricated"
                out.append((f"C07/read/wrong-message/{kind}", f"{what}: returned {_h(op.value)}, reference says {_h(exp2[2])}; {_desc(case)}"))
                return out
            if abs(op.t1 - exp2[1]) > 2e-3:
                out.append((f"C07/read/{exp2[0]}-at-wrong-time", f"{what}: finished at t={op.t1:.3f}, reference says t={exp2[1]:.3f}; {_desc(case)}"))
                return out
            if exp2[0] == "connerr":
                closed = True
    return out


def _h(x: Any) -> str:
    return x.hex() if isinstance(x, (bytes, bytearray)) else str(x)


def _desc(case: dict[str, Any]) -> str:
    return f"program={[(o[0], _h(o[1]) if o[0] == 'write' else o[1]) for o in case['program']]} reactions={[[(d, f['t']) for d, f in rx] for rx in case['reactions']]} unsolicited={[(t, f['t']) for t, f in case['unsolicited']]}"


def nontrivial(case: dict[str, Any]) -> bool:
    other = any(f["t"] != "ack" for rx in case["reactions"] for _, f in rx) or bool(case["unsolicited"])
    return other or any(s % 5 for s in case["splits"])


def shards(tier: str) -> list[dict[str, Any]]:
    return [{"n": 250 if tier == "quick" else 25000} for _ in range(15)] + [{"n": 150 if tier == "quick" else 5000, "eof": True}]


def run_shard(spec: dict[str, Any], seed: int) -> Collector:
    col = Collector()

    def body(case: dict[str, Any]) -> None:
        res = check(case)
        if case.get("kind") == "eof":
            col.case(str(case), True, cls="end-of-stream-after-data", sample=case)
            for b, m in res:
                col.violation(b, case, m)
            return
        kinds = sorted({f["t"] for rx in case["reactions"] for _, f in rx} | {f["t"] for _, f in case["unsolicited"]})
        col.case(str(case), nontrivial(case), cls="+".join(k for k in kinds if k in ("alive", "ctrl", "short", "data-other")) or "plain",
                 sample={**case, "program": [[o[0], _h(o[1]) if o[0] == "write" else o[1]] for o in case["program"]]})
        for b, m in res:
            col.violation(b, case, m)

    run_given(eof_case_s() if spec.get("eof") else case_s(), body, spec["n"], seed)
    return col


def replay(witness: Any) -> list[tuple[str, str]]:
    return check(unjson(witness))


def shrink(bucket: str, witness: Any, seed: int) -> Any:
    return shrink_bucket(case_s(), lambda c: {b for b, _ in check(c)}, bucket, seed, max_examples=1500)
