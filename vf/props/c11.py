"""C11 - Every exchange is recorded once, in order and byte-exact, in the scan database."""

from __future__ import annotations

import asyncio
import json
import logging
import shutil
import sqlite3
import tempfile
import time
from pathlib import Path
from typing import Any

from hypothesis import strategies as st

from vf import refcodec
from vf.core import Collector, run_given, shrink_bucket, unjson

PROPERTY = "C11"
LEVEL = "exploration"
RULE = (
    "Histories of 1..25 exchanges through ECU.request with a real DBHandler on a temporary SQLite file. Each exchange = (request of any "
    "modelled class with generated arguments, or a state-changing request: session change, ECUReset, sendKey, read of F186; outcome in "
    "{genuine positive reply, negative reply with any NRC, timeout, mismatching reply, malformed reply, connection error, pending x k then "
    "final}; ANALYZE tag or not; implicit logging switched on/off between exchanges). The history ends with a clean disconnect(), with the "
    "cancellation of the running task while an exchange hangs, or with an exception raised by the caller; disconnect() follows in all cases. "
    "Oracle (rows read back with sqlite3): exactly one row per exchange made while logging was on, in transmission order, request bytes and "
    "reply bytes as received (NULL without reply), exception repr or NULL, request_time <= response_time, state = a reference ECU-state "
    "tracker's view before the request, log_mode implicit/emphasized, no 'Could not log messages to database' warning; the exchange in flight "
    "at cancellation has its row too (request bytes, reply NULL). Outcomes also include failures that are no UDS exception: a refused reconnect of a retry, a "
    "Further case kinds: backlog (2 500+ fast exchanges, cancelled right after a reply), helpers (transmit_data, set_session through stored transitions), further tags next to ANALYZE, objects scrambled by the caller after the request. "
    "non-connection OSError from the transport, an ECU stuck in ResponsePending (RuntimeError). Non-trivial: >= 1 non-positive outcome and >= 1 state change. Distinct by history."
)
ASSUMPTIONS = [
    "real event loop (aiosqlite owns a thread); the scripted transport answers or raises immediately, so no real waiting happens",
    "max_retry=0, so that one request() is one transmission",
    "mismatching replies are chosen from replies that carry no session/security meaning",
]


class HistTransport:
    def __init__(self) -> None:
        from gallia.transports import TargetURI

        self.mutex = asyncio.Lock()
        self.target = TargetURI("tcp-lines://192.0.2.9:1")
        self.is_closed = False
        self.queue: list[Any] = []
        self.written: list[bytes] = []
        self.hang = asyncio.Event()
        self.reconnect_fail: BaseException | None = None
        self.suspend = False

    async def write(self, data: bytes, timeout: float | None = None, tags: list[str] | None = None) -> int:
        if self.suspend:
            await asyncio.sleep(0)  # the request is on its way: other users of the client get to run (and queue up)
        self.written.append(bytes(data))
        return len(data)

    async def read(self, timeout: float | None = None, tags: list[str] | None = None) -> bytes:
        if not self.queue:
            raise TimeoutError("script: silence")
        item = self.queue.pop(0)
        if item == "HANG":
            self.hang.set()
            await asyncio.sleep(3600)
        if isinstance(item, BaseException):
            raise item
        return item

    async def request_unsafe(self, data: bytes, timeout: float | None = None, tags: list[str] | None = None) -> bytes:
        await self.write(data, timeout, tags)
        return await self.read(timeout, tags)

    async def request(self, data: bytes, timeout: float | None = None, tags: list[str] | None = None) -> bytes:
        return await self.request_unsafe(data, timeout, tags)

    async def close(self) -> None:
        self.is_closed = True

    async def reconnect(self, timeout: float | None = None) -> "HistTransport":
        if self.reconnect_fail is not None:
            e, self.reconnect_fail = self.reconnect_fail, None
            raise e
        return self


special = st.one_of(
    st.tuples(st.just("dsc"), st.sampled_from([1, 2, 3, 0x40, 0x7F])),
    st.tuples(st.just("reset"), st.sampled_from([1, 2, 3])),
    st.tuples(st.just("sendkey"), st.sampled_from([2, 4, 0x12, 0x7E])),
    st.tuples(st.just("f186"), st.sampled_from([1, 2, 3, 0x55])),
    st.tuples(st.just("dtc-ext"), st.binary(min_size=0, max_size=4)),
)

outcome_s = st.one_of(
    st.just(["positive"]), st.just(["positive"]), st.just(["positive"]),
    st.tuples(st.just("negative"), st.sampled_from(sorted(refcodec.KNOWN_NRC - {0x78, 0x21}))).map(list),
    st.just(["timeout"]), st.just(["mismatch"]), st.just(["malformed"]), st.just(["connerr"]),
    # failures that reach the caller as something other than a UDS exception: the reconnect of a retry is refused, the
    # transport fails with a non-connection OS error, the ECU never stops sending ResponsePending
    st.just(["connerr-retry-refused"]), st.just(["oserror"]), st.just(["pending-stuck"]),
    # the connection is lost during the first attempt, the retry (after an automatic reconnect) gets the reply
    st.just(["connerr-retry-ok"]), st.just(["connerr-retry-ok"]),
    st.tuples(st.just("pending"), st.integers(1, 3), st.sampled_from(["positive", "negative"])).map(list),
)


@st.composite
def exchange_s(draw) -> dict[str, Any]:
    if draw(st.integers(0, 2)) == 0:
        req: Any = {"special": list(draw(special))}
    else:
        req = draw(refcodec.request_case())
    return {"req": req, "outcome": draw(outcome_s), "analyze": draw(st.booleans()), "tail": draw(st.binary(max_size=6)), "with_ping": draw(st.integers(0, 4)) == 0,
            "scramble": draw(st.integers(0, 3)) == 0,
            # further tags next to (or instead of) ANALYZE: only ANALYZE decides about the log mode
            "more_tags": draw(st.sampled_from([[], [], [], ["fuzz"], ["preparation", "x"]])), "tags_first": draw(st.booleans())}


@st.composite
def case_s(draw) -> dict[str, Any]:
    n = draw(st.integers(1, 25))
    exchanges = []
    for _ in range(n):
        e = draw(exchange_s())
        e["logging"] = draw(st.sampled_from([True, True, True, True, False]))
        exchanges.append(e)
    end = draw(st.sampled_from(["clean", "clean", "cancel", "raise"]))
    case = {"exchanges": exchanges, "end": end, "end_at": draw(st.integers(0, n))}
    if end == "clean" and draw(st.integers(0, 3)) == 0:
        logged = sum(1 for e in exchanges if e["logging"])
        if logged:
            case["db_locked"] = [logged - 1]
            for e in exchanges:
                e["with_ping"] = False  # keeps "the last row" well defined (a retried row in the middle may get a later id)
    return case


def build(e: dict[str, Any]) -> tuple[Any, bytes, bytes | None]:
    """(request object, request bytes, genuine positive reply)"""
    from gallia.services.uds.core import service

    r = e["req"]
    tail = e["tail"]
    if "special" in r:
        k, v = r["special"]
        if k == "dsc":
            rq = service.DiagnosticSessionControlRequest(v)
            return rq, rq.pdu, bytes([0x50, v]) + tail[:4]
        if k == "reset":
            rq = service.ECUResetRequest(v)
            return rq, rq.pdu, bytes([0x51, v])
        if k == "sendkey":
            rq = service.SendKeyRequest(v, b"\x01\x02")
            return rq, rq.pdu, bytes([0x67, v])
        if k == "f186":
            rq = service.ReadDataByIdentifierRequest(0xF186)
            return rq, rq.pdu, bytes([0x62, 0xF1, 0x86, v])
        if k == "dtc-ext":
            rq = service.ReportDTCExtDataRecordByDTCNumberRequest(0x000001, 0xFF)
            return rq, rq.pdu, b"\x59\x06\x00\x00\x01\x2f\x01" + v
    spec = refcodec.REQ[r["cls"]]
    rq = getattr(service, r["cls"])(**r["kw"])
    rep = spec.reply(r["kw"], tail) if spec.reply else None
    return rq, spec.encode(r["kw"]), rep


def run_history(case: dict[str, Any], dbpath: Path) -> dict[str, Any]:
    from gallia.command.base import BaseCommandConfig
    from gallia.db.handler import DBHandler
    from gallia.services.uds.core.client import UDSRequestConfig
    from gallia.services.uds.ecu import ECU

    rec: dict[str, Any] = {"sent": [], "warnings": []}

    class Tap(logging.Handler):
        def emit(self, record: logging.LogRecord) -> None:
            if record.levelno >= logging.WARNING:
                rec["warnings"].append(record.getMessage())

    async def go() -> None:
        from datetime import UTC, datetime

        db = DBHandler(dbpath)
        await db.connect()
        await db.insert_run_meta("vf.c11", BaseCommandConfig(), datetime.now(UTC).astimezone(), None)
        await db.insert_scan_run("tcp-lines://192.0.2.9:1")
        # the database file is briefly locked by another process: the n-th write of an exchange fails once with OperationalError
        # (only for the last exchange of the history - a retried row in the middle may legitimately get a later row id)
        locked = set(case.get("db_locked") or [])
        if locked:
            import aiosqlite

            real_execute = db.connection.execute
            seen_inserts: dict[str, Any] = {"n": 0, "until": {}}

            async def flaky_execute(query: str, *a: Any, **kw: Any) -> Any:
                if "INSERT INTO scan_result" in query:
                    k = seen_inserts["n"]
                    if k in locked:
                        # the lock lasts 60 ms from the first attempt; every attempt inside that window fails after a thread
                        # round trip, as a real execute() would
                        until = seen_inserts["until"].setdefault(k, time.monotonic() + 0.06)
                        if time.monotonic() < until:
                            await asyncio.sleep(0.002)
                            raise aiosqlite.OperationalError("database is locked")
                    seen_inserts["n"] += 1
                return await real_execute(query, *a, **kw)

            db.connection.execute = flaky_execute  # type: ignore[method-assign]
        tr = HistTransport()
        ecu = ECU(tr, timeout=0.2, max_retry=0)  # type: ignore[arg-type]
        ecu.retry_wait = 0.001
        ecu.db_handler = db
        session, level = 1, None

        async def history() -> None:
            nonlocal session, level
            for i, e in enumerate(case["exchanges"]):
                if case["end"] == "raise" and i == case["end_at"]:
                    raise RuntimeError("caller failed")
                ecu.implicit_logging = e["logging"]
                rq, req_bytes, genuine = build(e)
                o = e["outcome"]
                kind = o[0]
                if kind == "positive" and genuine is None:
                    kind = "negative"
                    o = ["negative", 0x31]
                reply: bytes | None = None
                hang = case["end"] == "cancel" and i == case["end_at"]
                if hang:
                    tr.queue = ["HANG"]
                elif kind == "positive":
                    tr.queue = [genuine]
                    reply = genuine
                elif kind == "negative":
                    reply = bytes([0x7F, req_bytes[0], o[1]])
                    tr.queue = [reply]
                elif kind == "timeout":
                    tr.queue = []
                elif kind == "mismatch":
                    reply = bytes([0x7F, (req_bytes[0] + 1) & 0xFF, 0x31])
                    tr.queue = [reply]
                elif kind == "malformed":
                    reply = bytes([0x7F, req_bytes[0], 0xEE])
                    tr.queue = [reply]
                elif kind == "connerr":
                    tr.queue = [ConnectionResetError("script")]
                elif kind == "connerr-retry-refused":
                    tr.queue = [ConnectionResetError("script")]
                    tr.reconnect_fail = ConnectionRefusedError("script: peer is gone")
                elif kind == "connerr-retry-ok":
                    reply = genuine if genuine is not None else bytes([0x7F, req_bytes[0], 0x31])
                    tr.queue = [ConnectionResetError("script"), reply]
                elif kind == "oserror":
                    tr.queue = [OSError(113, "script: no route to host")]
                elif kind == "pending-stuck":
                    tr.queue = [bytes([0x7F, req_bytes[0], 0x78])] * 125
                elif kind == "pending":
                    reply = genuine if (o[2] == "positive" and genuine is not None) else bytes([0x7F, req_bytes[0], 0x22])
                    tr.queue = [bytes([0x7F, req_bytes[0], 0x78])] * o[1] + [reply]
                exp = {"i": i, "request": req_bytes.hex(), "reply": None if reply is None else reply.hex(), "state": {"session": session, "security_access_level": level},
                       "mode": "emphasized" if e["analyze"] else "implicit", "logged": e["logging"], "kind": "hang" if hang else kind}
                rec["sent"].append(exp)
                with_ping = bool(e.get("with_ping")) and kind in ("positive", "negative") and not hang
                try:
                    tags_ = (["ANALYZE"] if e["analyze"] else []) + list(e.get("more_tags") or [])
                    if e.get("tags_first"):
                        tags_.reverse()
                    cfg_ = UDSRequestConfig(tags=tags_ or None, max_retry=1 if kind in ("connerr-retry-refused", "connerr-retry-ok") else None)
                    if with_ping:
                        # a second user of the client (the tester-present worker's ping) asks while this exchange is in flight; the
                        # client serialises the two, the ping is sent - and recorded - in the state this exchange leaves behind
                        tr.queue.append(b"\x7e\x00")
                        tr.suspend = True
                        res_ = await asyncio.gather(ecu.request(rq, cfg_), ecu.ping(), return_exceptions=True)
                        tr.suspend = False
                        if isinstance(res_[0], BaseException):
                            raise res_[0]
                    else:
                        resp_ = await ecu.request(rq, cfg_)
                        if e.get("scramble"):
                            # the caller works on the objects it holds (fills in a data record, reuses the request): the row
                            # describes what was on the wire, not what the objects look like later
                            _scramble(resp_)
                            _scramble(rq)
                    exp["exc"] = None
                except asyncio.CancelledError:
                    exp["exc"] = "cancelled"
                    raise
                except Exception as ex:  # noqa: BLE001
                    exp["exc"] = type(ex).__name__
                # reference ECU-state tracker (ISO rules, on positive replies the client accepted)
                if reply is not None and exp["exc"] is None and reply[0] == req_bytes[0] + 0x40:
                    if reply[0] == 0x50:
                        session, level = reply[1], None
                    elif reply[0] == 0x51:
                        session, level = 1, None
                    elif reply[0] == 0x67 and reply[1] % 2 == 0:
                        level = reply[1] - 1
                    elif reply[:3] == b"\x62\xf1\x86":
                        ns = int.from_bytes(reply[3:], "big")
                        if ns != session:
                            session, level = ns, None
                if with_ping:
                    rec["sent"].append({"i": i, "request": "3e00", "reply": "7e00", "state": {"session": session, "security_access_level": level},
                                        "mode": "implicit", "logged": e["logging"], "kind": "positive", "exc": None})

        lg = logging.getLogger("gallia")
        tap = Tap()
        lg.addHandler(tap)
        try:
            task = asyncio.create_task(history())
            if case["end"] == "cancel" and case["end_at"] < len(case["exchanges"]):
                await tr.hang.wait()
                task.cancel()
            try:
                await task
            except asyncio.CancelledError:
                rec["ended"] = "cancelled"
            except RuntimeError:
                rec["ended"] = "raised"
            else:
                rec["ended"] = "clean"
        finally:
            await db.disconnect()
            lg.removeHandler(tap)

    asyncio.run(go())
    return rec


def _scramble(obj: Any) -> None:
    for k, v in list(vars(obj).items()):
        try:
            if isinstance(v, (bytes, bytearray)):
                setattr(obj, k, b"\xde\xad" + bytes(v))
            elif isinstance(v, bool):
                continue
            elif isinstance(v, int):
                setattr(obj, k, (v + 1) & 0xFF)
            elif isinstance(v, list):
                v.reverse()
                v.append(v[0] if v else 0)
            elif isinstance(v, dict):
                v.clear()
        except Exception:  # noqa: BLE001
            pass


@st.composite
def scanner_case_s(draw) -> dict[str, Any]:
    """A UDSScanner command that switches implicit logging in its constructor (before the ECU object exists, as the
    seed-dumping scanner does) and/or inside main()."""
    steps = draw(st.lists(st.one_of(st.tuples(st.just("req"), st.integers(0x2000, 0x2010)).map(list), st.tuples(st.just("toggle"), st.booleans()).map(list)),
                          min_size=1, max_size=10))
    return {"kind": "scanner", "early": draw(st.sampled_from([None, False, False, True])), "steps": steps}


def check_scanner(case: dict[str, Any]) -> list[tuple[str, str]]:
    from unittest import mock

    from gallia.command import UDSScanner
    from gallia.command.uds import UDSScannerConfig
    from gallia.services.uds.core import service

    from vf import vecu
    from vf.scan import MemECUTransport

    d = Path(tempfile.mkdtemp(prefix="vf-c11s."))
    expected: list[str] = []
    try:
        class Cmd(UDSScanner):
            CONFIG_TYPE = UDSScannerConfig

            def __init__(self, config: Any) -> None:
                super().__init__(config)
                if case["early"] is not None:
                    self.implicit_logging = case["early"]

            async def main(self) -> None:
                on = True if case["early"] is None else case["early"]
                for k, v in case["steps"]:
                    if k == "toggle":
                        self.implicit_logging = v
                        on = v
                    else:
                        rq = service.ReadDataByIdentifierRequest(v)
                        if on:
                            expected.append(rq.pdu.hex())
                        await self.ecu.request(rq)

        async def go() -> Any:
            server = vecu.make_server(3, {}, [])
            await server.setup()
            tr = MemECUTransport(server, [], 10000)

            class Loader:
                @classmethod
                async def connect(cls, target: Any, timeout: float | None = None) -> Any:
                    return tr

            cfg = UDSScannerConfig(target="tcp-lines://127.0.0.1:1", db=d / "db.sqlite", dumpcap=False, ping=False, tester_present=False, properties=False, hooks=False)
            with mock.patch("gallia.plugins.plugin.load_transport", lambda target: Loader):
                return await Cmd(cfg).entry_point()

        try:
            rc = asyncio.run(go())
        except Exception as e:  # noqa: BLE001
            return [(f"C11/scanner/raises/{type(e).__name__}", f"{case}: {type(e).__name__}: {e}")]
        con = sqlite3.connect(d / "db.sqlite")
        rows = [r[0] for r in con.execute("SELECT request_pdu FROM scan_result ORDER BY id").fetchall()]
        con.close()
    finally:
        shutil.rmtree(d, ignore_errors=True)
    if rc != 0:
        return [(f"C11/scanner/exit-{rc}", f"{case}")]
    if rows != expected:
        kind = "recorded-while-off" if len(rows) > len(expected) else "missing"
        when = "switched-off-before-setup" if case["early"] is False else "toggled-in-main"
        return [(f"C11/scanner/{kind}/{when}", f"early={case['early']} steps={case['steps']}: rows {rows}, expected {expected}")]
    return []


def check_backlog(case: dict[str, Any]) -> list[tuple[str, str]]:
    """A long, fast scan (thousands of exchanges, the database writer lags behind) that is cancelled right after the reply of
    exchange k has been received: every request that was put on the wire has its row."""
    from datetime import UTC, datetime

    from gallia.command.base import BaseCommandConfig
    from gallia.db.handler import DBHandler
    from gallia.services.uds.core import service
    from gallia.services.uds.ecu import ECU

    n, k = case["n"], case["cancel_after"]
    d = Path(tempfile.mkdtemp(prefix="vf-c11b."))
    written: list[str] = []
    try:
        async def go() -> None:
            db = DBHandler(d / "db.sqlite")
            await db.connect()
            await db.insert_run_meta("vf.c11", BaseCommandConfig(), datetime.now(UTC).astimezone(), None)
            await db.insert_scan_run("tcp-lines://192.0.2.9:1")
            box: dict[str, Any] = {}

            class Fast(HistTransport):
                async def write(self, data: bytes, timeout: float | None = None, tags: list[str] | None = None) -> int:
                    written.append(bytes(data).hex())
                    return len(data)

                async def read(self, timeout: float | None = None, tags: list[str] | None = None) -> bytes:
                    await asyncio.sleep(0)
                    req = bytes.fromhex(written[-1])
                    if len(written) == k:
                        box["task"].cancel()  # takes effect at the next point where the scan has to wait
                    return b"\x62" + req[1:3] + b"\x00"

            ecu = ECU(Fast(), timeout=0.2, max_retry=0)  # type: ignore[arg-type]
            ecu.db_handler = db

            async def scan() -> None:
                for i in range(n):
                    await ecu.request(service.ReadDataByIdentifierRequest(i & 0xFFFF))

            box["task"] = asyncio.create_task(scan())
            try:
                await box["task"]
            except asyncio.CancelledError:
                pass
            finally:
                await db.disconnect()

        try:
            asyncio.run(go())
        except Exception as e:  # noqa: BLE001
            return [(f"C11/backlog/raises/{type(e).__name__}", f"{case}: {type(e).__name__}: {e}")]
        con = sqlite3.connect(d / "db.sqlite")
        rows = [r[0] for r in con.execute("SELECT request_pdu FROM scan_result ORDER BY id").fetchall()]
        con.close()
    finally:
        shutil.rmtree(d, ignore_errors=True)
    if rows != written:
        missing = [w for w in written if w not in set(rows)]
        return [("C11/backlog/" + ("row-missing-after-cancellation" if len(rows) < len(written) else "rows-differ"),
                 f"{case}: {len(written)} requests were put on the wire, {len(rows)} rows; missing {missing[:4]}")]
    return []


def check_helpers(case: dict[str, Any]) -> list[tuple[str, str]]:
    """The multi-request helpers of the ECU client (transmit_data, set_session with the fallback to the session transitions stored
    in the database) are made of ordinary requests: each of them has its row, and the caller's ANALYZE tag marks the caller's request."""
    from datetime import UTC, datetime

    from gallia.command.base import BaseCommandConfig
    from gallia.db.handler import DBHandler
    from gallia.services.uds.core.client import UDSRequestConfig
    from gallia.services.uds.ecu import ECU

    level, steps, data, block = case["level"], case["steps"], bytes.fromhex(case["data"]), case["block"]
    d = Path(tempfile.mkdtemp(prefix="vf-c11h."))
    wire: list[tuple[str, str | None]] = []
    try:
        async def go() -> None:
            db = DBHandler(d / "db.sqlite")
            await db.connect()
            await db.insert_run_meta("vf.c11", BaseCommandConfig(), datetime.now(UTC).astimezone(), None)
            await db.insert_scan_run("tcp-lines://192.0.2.9:1")
            await db.insert_session_transition(level, steps)
            refused = {"n": 1 if case["refuse_first"] else 0}

            class Auto(HistTransport):
                async def write(self, data_: bytes, timeout: float | None = None, tags: list[str] | None = None) -> int:
                    b = bytes(data_)
                    if b[0] == 0x36:
                        rep: bytes | None = bytes([0x76, b[1]])
                    elif b[0] == 0x37:
                        rep = b"\x77"
                    elif b[0] == 0x3E:
                        rep = b"\x7e\x00"
                    elif b[0] == 0x10 and b[1] == level and refused["n"]:
                        refused["n"] -= 1
                        rep = b"\x7f\x10\x7e"
                    elif b[0] == 0x10:
                        rep = bytes([0x50, b[1], 0x00, 0x32, 0x01, 0xF4])
                    else:
                        rep = bytes([0x7F, b[0], 0x11])
                    wire.append((b.hex(), rep.hex()))
                    self.queue = [rep]
                    return len(b)

            ecu = ECU(Auto(), timeout=0.2, max_retry=0)  # type: ignore[arg-type]
            ecu.db_handler = db
            try:
                await ecu.ping()
                if data:
                    await ecu.transmit_data(data, block, config=UDSRequestConfig(tags=["ANALYZE"]) if case["tag_transfer"] else None)
                await ecu.set_session(level, config=UDSRequestConfig(tags=["ANALYZE"]))
                await ecu.ping()
            finally:
                await db.disconnect()

        try:
            asyncio.run(go())
        except Exception as e:  # noqa: BLE001
            return [(f"C11/helpers/raises/{type(e).__name__}", f"{case}: {type(e).__name__}: {e}")]
        con = sqlite3.connect(d / "db.sqlite")
        rows = con.execute("SELECT request_pdu, response_pdu, log_mode FROM scan_result ORDER BY id").fetchall()
        con.close()
    finally:
        shutil.rmtree(d, ignore_errors=True)
    if [(r[0], r[1]) for r in rows] != wire:
        missing = [w[0] for w in wire if w[0] not in {r[0] for r in rows}]
        which = "transfer" if any(m.startswith(("36", "37")) for m in missing) else "session-change" if any(m.startswith("10") for m in missing) else "other"
        return [(f"C11/helpers/rows-differ/{which}", f"{case}: wire {[w[0][:10] for w in wire]}, rows {[r[0][:10] for r in rows]}")]
    out = []
    for rq, _rp, mode in rows:
        if rq == bytes([0x10, level]).hex() and mode != "emphasized":
            out.append(("C11/helpers/log-mode/session-change-of-the-caller", f"{case}: request {rq} of set_session(.., tags=ANALYZE) stored as {mode}"))
            break
        if rq[:2] in ("36", "37") and mode != ("emphasized" if case["tag_transfer"] else "implicit"):
            out.append(("C11/helpers/log-mode/transfer", f"{case}: request {rq[:10]} stored as {mode}"))
            break
    return out


@st.composite
def helpers_case_s(draw) -> dict[str, Any]:
    level = draw(st.sampled_from([2, 3, 0x40, 0x60]))
    return {"kind": "helpers", "level": level, "steps": [x for x in draw(st.sampled_from([[1], [1, 3], [1, 2, 3]])) if x != level],
            "refuse_first": draw(st.sampled_from([True, True, False])), "data": draw(st.binary(min_size=0, max_size=40)).hex(),
            "block": draw(st.sampled_from([3, 4, 6, 10, 0xFFF])), "tag_transfer": draw(st.booleans())}


def check(case: dict[str, Any]) -> list[tuple[str, str]]:
    if case.get("kind") == "scanner":
        return check_scanner(case)
    if case.get("kind") == "helpers":
        return check_helpers(case)
    if case.get("kind") == "backlog":
        return check_backlog(case)
    d = Path(tempfile.mkdtemp(prefix="vf-c11."))
    try:
        try:
            rec = run_history(case, d / "db.sqlite")
        except Exception as e:  # noqa: BLE001
            return [(f"C11/history-raises/{type(e).__name__}", f"{type(e).__name__}: {e}")]
        con = sqlite3.connect(d / "db.sqlite")
        rows = con.execute("SELECT request_pdu, response_pdu, exception, request_time, response_time, state, log_mode FROM scan_result ORDER BY id").fetchall()
        con.close()
    finally:
        shutil.rmtree(d, ignore_errors=True)
    out: list[tuple[str, str]] = []
    sent = rec["sent"]
    # the request that was in flight when the run was cancelled has been put on the wire: it has its row as well (reply NULL)
    must = [e for e in sent if e["logged"]]
    may: list[dict[str, Any]] = []
    ctx = f"end={case['end']}@{case['end_at']} exchanges={[(e['request'][:12], e['kind'], e['logged']) for e in sent]}"
    lost = [w for w in rec["warnings"] if "Could not log messages to database" in w and "Retrying" not in w]
    if lost:
        import re

        m = re.search(r"database: (\w+)", lost[0])
        out.append((f"C11/row-not-written/{m.group(1) if m else 'unknown'}", f"{ctx}: warning {lost[0][:160]}"))
        return out
    if len(rows) not in (len(must), len(must) + len(may)):
        out.append((f"C11/row-count/{'fewer' if len(rows) < len(must) else 'more'}/{rec.get('ended')}", f"{ctx}: {len(rows)} rows for {len(must)} logged exchanges (+{len(may)} in flight)"))
        return out
    for e, r in zip(must, rows):
        rq, rp, exc, t0, t1, state, mode = r
        if rq != e["request"]:
            out.append(("C11/order-or-request-bytes", f"{ctx}: row holds request {rq}, exchange #{e['i']} sent {e['request']}"))
            return out
        if rp != e["reply"] and not (e["kind"] in ("connerr", "connerr-retry-refused", "oserror", "pending-stuck") and rp is None):
            out.append((f"C11/reply-bytes/{e['kind']}", f"{ctx}: exchange #{e['i']}: row holds reply {rp}, received {e['reply']}"))
            return out
        if e["kind"] == "hang":
            pass  # what the exception column says about a cancellation is not specified
        elif (exc is None) != (e["exc"] is None):
            out.append((f"C11/exception-column/{e['kind']}", f"{ctx}: exchange #{e['i']}: row exception {exc!r}, caller saw {e['exc']!r}"))
            return out
        if e["kind"] != "hang" and exc is not None and e["exc"] not in exc:
            out.append((f"C11/exception-column/{e['kind']}", f"{ctx}: exchange #{e['i']}: row exception {exc!r}, caller saw {e['exc']!r}"))
            return out
        if t1 is not None and t0 > t1:
            out.append(("C11/times", f"{ctx}: exchange #{e['i']}: request_time {t0} > response_time {t1}"))
        if json.loads(state) != e["state"]:
            out.append(("C11/state", f"{ctx}: exchange #{e['i']}: row state {state}, client's view before the request {e['state']}"))
            return out
        if mode != e["mode"]:
            out.append(("C11/log-mode", f"{ctx}: exchange #{e['i']}: {mode} instead of {e['mode']}"))
            return out
    return out


def nontrivial(case: dict[str, Any]) -> bool:
    if case.get("kind") == "scanner":
        return True
    ex = case["exchanges"]
    return any(e["outcome"][0] != "positive" for e in ex) and any("special" in e["req"] and e["outcome"][0] == "positive" for e in ex)


def shards(tier: str) -> list[dict[str, Any]]:
    return [{"n": 90 if tier == "quick" else 1500} for _ in range(14)] + [{"n": 40 if tier == "quick" else 800, "scanner": True} for _ in range(2)] + \
        [{"backlog": [2500] if tier == "quick" else [1500, 2500, 6000]}] + [{"helpers": 20 if tier == "quick" else 500} for _ in range(2)]


def run_shard(spec: dict[str, Any], seed: int) -> Collector:
    col = Collector()

    def body_scanner(case: dict[str, Any]) -> None:
        col.case(str(case), case["early"] is not None or any(k == "toggle" for k, _ in case["steps"]), cls=f"scanner/early-{case['early']}", sample=case)
        for b, m in check(case):
            col.violation(b, case, m)

    if spec.get("scanner"):
        run_given(scanner_case_s(), body_scanner, spec["n"], seed)
        return col
    if spec.get("helpers"):
        def body_helpers(case: dict[str, Any]) -> None:
            col.case(str(case), True, cls="helpers", sample=case)
            for b, m in check(case):
                col.violation(b, case, m)

        run_given(helpers_case_s(), body_helpers, spec["helpers"], seed)
        return col
    if spec.get("backlog"):
        for n in spec["backlog"]:
            for k in (n - 1 - seed % 400, n // 2 + seed % 97):
                case = {"kind": "backlog", "n": n, "cancel_after": k}
                col.case(str(case), True, cls="backlog", sample=case)
                for b, m in check(case):
                    col.violation(b, case, m)
        return col

    def body(case: dict[str, Any]) -> None:
        res = check(case)
        col.case(str(case), nontrivial(case), cls=f"{case['end']}/n{min(len(case['exchanges']) // 5 * 5, 25)}",
                 sample={"end": case["end"], "end_at": case["end_at"], "exchanges": [{"req": str(e["req"])[:80], "outcome": e["outcome"], "logging": e["logging"]} for e in case["exchanges"][:5]]})
        for b, m in res:
            col.violation(b, case, m)

    run_given(case_s(), body, spec["n"], seed)
    return col


def replay(witness: Any) -> list[tuple[str, str]]:
    w = unjson(witness)
    if w.get("kind") in ("scanner", "backlog", "helpers"):
        return check(w)
    for e in w["exchanges"]:
        if "special" in e["req"]:
            e["req"]["special"] = list(e["req"]["special"])
    return check(w)


def shrink(bucket: str, witness: Any, seed: int) -> Any:
    if unjson(witness).get("kind") == "scanner":
        return shrink_bucket(scanner_case_s(), lambda c: {b for b, _ in check(c)}, bucket, seed, max_examples=100)
    return shrink_bucket(case_s(), lambda c: {b for b, _ in check(c)}, bucket, seed, max_examples=150)
