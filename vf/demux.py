"""Shared machinery for the stream-demultiplexing properties (C06 DoIP, C07 HSFZ, parts of C08).

Wire: the gateway's byte stream is assembled by a central scheduler. Frames are registered for an emission instant
(integer ticks of 10 ms); all frames of one instant are concatenated in registration order, cut at generated split points
and fed to the client's StreamReader chunk by chunk (1 ms apart, so a frame group is complete before the next tick).
The scheduler records for every frame the virtual instant at which its last byte was delivered: this timeline plus the
recorded start/finish of every client operation is what the post-hoc reference demultiplexer works on.
"""

from __future__ import annotations

import asyncio
from dataclasses import dataclass, field
from typing import Any, Callable

TICK = 0.01
CHUNK_DT = 0.001


@dataclass
class WireFrame:
    raw: bytes
    meta: dict[str, Any]
    t_done: float = -1.0  # instant the last byte reached the client
    seq: int = -1


class Wire:
    def __init__(self, reader: asyncio.StreamReader, splits: list[int]) -> None:
        self.reader = reader
        self.splits = list(splits)  # consumed round-robin: number of pieces and positions
        self.slots: dict[int, list[WireFrame]] = {}
        self.frames: list[WireFrame] = []
        self.closed = False
        self._split_i = 0

    def _next_split(self) -> int:
        if not self.splits:
            return 0
        v = self.splits[self._split_i % len(self.splits)]
        self._split_i += 1
        return v

    def emit(self, delay_ticks: int, raw: bytes, meta: dict[str, Any]) -> None:
        loop = asyncio.get_event_loop()
        now_tick = int(round(loop.time() / TICK))
        # strictly in the future: the group of the current tick may already have been flushed
        tick = now_tick + max(1, delay_ticks)
        f = WireFrame(raw, meta)
        if tick not in self.slots:
            self.slots[tick] = []
            loop.call_at(tick * TICK, self._flush, tick)
        self.slots[tick].append(f)

    def _flush(self, tick: int) -> None:
        group = self.slots.pop(tick, [])
        if not group or self.closed:
            return
        loop = asyncio.get_event_loop()
        data = b"".join(f.raw for f in group)
        # cut positions for this group
        cuts: list[int] = []
        npieces = self._next_split() % 5  # 0..4 cuts
        for _ in range(npieces):
            if len(data) > 1:
                cuts.append(1 + self._next_split() % (len(data) - 1))
        cuts = sorted(set(cuts))
        bounds = [0] + cuts + [len(data)]
        chunks = [(i * CHUNK_DT, data[a:b]) for i, (a, b) in enumerate(zip(bounds, bounds[1:]))]
        # completion instant per frame
        off = 0
        for f in group:
            off += len(f.raw)
            ci = next(i for i, b in enumerate(bounds[1:]) if b >= off)
            f.t_done = tick * TICK + ci * CHUNK_DT
            f.seq = len(self.frames)
            self.frames.append(f)
        t0 = tick * TICK
        for dt, ch in chunks:
            if dt == 0:
                self._feed(ch)
            else:
                loop.call_at(t0 + dt, self._feed, ch)

    def _feed(self, ch: bytes) -> None:
        if self.closed:
            return
        try:
            self.reader.feed_data(ch)
        except AssertionError:
            # the client fed EOF into its own reader (connection closed on its side): the rest of the stream goes nowhere
            self.closed = True


@dataclass
class OpRecord:
    kind: str  # "write" | "read"
    arg: Any
    t0: float
    t1: float = -1.0
    outcome: str = ""  # "ok" | "timeout" | "connerr" | "exc:<Type>"
    value: Any = None
    detail: str = ""


async def run_program(transport: Any, program: list[list[Any]], ops: list[OpRecord], drain_reads: int, drain_timeout: float) -> None:
    loop = asyncio.get_event_loop()
    prog = list(program) + [["read", drain_timeout]] * drain_reads
    for i, op in enumerate(prog):
        rec = OpRecord(op[0], op[1], loop.time())
        ops.append(rec)
        try:
            if op[0] == "write":
                await transport.write(bytes(op[1]), timeout=op[2] if len(op) > 2 else None)
                rec.outcome = "ok"
            elif op[0] == "sleep":
                await asyncio.sleep(op[1])
                rec.outcome = "ok"
            else:
                rec.value = await transport.read(timeout=op[1])
                rec.outcome = "ok"
        except TimeoutError:
            rec.outcome = "timeout"
        except ConnectionError as e:
            rec.outcome = "connerr"
            rec.detail = repr(e)
        except Exception as e:  # noqa: BLE001
            rec.outcome = f"exc:{type(e).__name__}"
            rec.detail = repr(e)
        rec.t1 = loop.time()
        if rec.outcome in ("connerr",) or rec.outcome.startswith("exc:"):
            break
        if i >= len(program) and rec.outcome == "timeout":
            break
