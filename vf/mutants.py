# Hand-written sensitivity mutants: realistic one-site changes that still import and pass the pinned tests.
# {"prop", "name", "file" (relative to src/gallia), "old", "new"}
MUTANTS = [
    # ---- C20
    {"prop": "C20", "name": "range-exclusive-end", "file": "utils.py", "old": "range(first, last + 1)", "new": "range(first, last)"},
    {"prop": "C20", "name": "unravel-unsorted", "file": "utils.py", "old": "    return sorted(result)\n", "new": "    return list(result)\n"},
    {"prop": "C20", "name": "bare-key-not-overriding", "file": "utils.py",
     "old": "            for x in first:\n                unsorted_result[x] = None\n",
     "new": "            for x in first:\n                if x not in unsorted_result:\n                    unsorted_result[x] = None\n"},
    {"prop": "C20", "name": "auto-int-base10", "file": "utils.py", "old": "return int(arg, 0)", "new": "return int(arg, 16) if arg.lower().startswith(\"0x\") else int(arg)"},
    {"prop": "C20", "name": "qs-flat-last-value", "file": "transports/base.py", "old": "d[k] = v[0]", "new": "d[k] = v[-1].lower()"},
    {"prop": "C20", "name": "hsfz-default-port", "file": "transports/hsfz.py", "old": "port = t.port if t.port is not None else 6801", "new": "port = t.port if t.port else 6801"},
    {"prop": "C20", "name": "ipv6-no-brackets-join", "file": "net.py", "old": 'return f"[{host}]:{port}"', "new": 'return f"{host}:{port}"'},
    # ---- C19
    {"prop": "C19", "name": "readline-to-read", "file": "transports/base.py", "old": "self.get_reader().readline()", "new": "self.get_reader().read(4096)"},
    {"prop": "C19", "name": "no-newline-on-write", "file": "transports/base.py", "old": 'writer.write(binascii.hexlify(data) + b"\\n")', "new": "writer.write(binascii.hexlify(data))"},
    {"prop": "C19", "name": "timeout-consumes", "file": "transports/base.py",
     "old": "        data = await asyncio.wait_for(self.get_reader().readline(), timeout)\n",
     "new": "        try:\n            data = await asyncio.wait_for(self.get_reader().readline(), timeout)\n        except TimeoutError:\n            self.get_reader()._buffer.clear()\n            raise\n"},
    {"prop": "C19", "name": "server-break-on-suppressed", "file": "services/uds/server.py",
     "old": "                if uds_response_raw is not None:\n                    writer.write(hexlify(uds_response_raw) + b\"\\n\")\n                    await writer.drain()\n            except Exception as e:\n                logger.error(f\"Unexpected exception when handling client",
     "new": "                if uds_response_raw is not None:\n                    writer.write(hexlify(uds_response_raw) + b\"\\n\")\n                    await writer.drain()\n                else:\n                    break\n            except Exception as e:\n                logger.error(f\"Unexpected exception when handling client"},
    {"prop": "C19", "name": "server-strip-to-split", "file": "services/uds/server.py", "old": 'tcp_request = line.decode("ascii").strip()', "new": 'tcp_request = line.decode("ascii").strip()[:4094]'},
    # ---- C01
    {"prop": "C01", "name": "dddi-swap-fields", "file": "services/uds/core/service.py",
     "old": "                + to_bytes(position_in_source_data_record, 1)\n                + to_bytes(memory_size, 1)",
     "new": "                + to_bytes(memory_size, 1)\n                + to_bytes(position_in_source_data_record, 1)"},
    {"prop": "C01", "name": "wdbi-little-endian", "file": "services/uds/core/service.py",
     "old": 'return pack("!BH", self.SERVICE_ID, self.data_identifier) + self.data_record', "new": 'return pack("<BH", self.SERVICE_ID, self.data_identifier) + self.data_record'},
    {"prop": "C01", "name": "suppress-bit-dropped", "file": "services/uds/core/service.py",
     "old": "return int(self.suppress_response) * 0x80 + self.sub_function", "new": "return int(self.suppress_response) * 0x40 + self.sub_function"},
    {"prop": "C01", "name": "alfid-shift-3", "file": "services/uds/core/utils.py",
     "old": "address_and_length_fmt = (size_length << 4) | addr_length", "new": "address_and_length_fmt = (size_length << 3) | addr_length"},
    {"prop": "C01", "name": "no-check-sub-function", "file": "services/uds/core/utils.py",
     "old": "    if not 0 <= sub_function <= 0x7F:", "new": "    if not 0 <= sub_function <= 0xFF:"},
    {"prop": "C01", "name": "client-rmba-swaps-args", "file": "services/uds/core/client.py",
     "old": "service.ReadMemoryByAddressRequest(\n                memory_address, memory_size, address_and_length_format_identifier\n            )",
     "new": "service.ReadMemoryByAddressRequest(\n                memory_size, memory_address, address_and_length_format_identifier\n            )"},
]
