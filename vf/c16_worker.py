"""Worker for C16: runs in a separate interpreter with its own PYTHONHASHSEED / import order / clock / global RNG state.
usage: python -m vf.c16_worker <cases.json> <out.json>;  env VF_IMPORT_ORDER, VF_CLOCK_SHIFT, VF_RNG_PERTURB"""
import json
import os
import sys
import time


def main() -> None:
    shift = float(os.environ.get("VF_CLOCK_SHIFT", "0"))
    if shift:
        real = time.time
        time.time = lambda: real() + shift  # type: ignore[assignment]
    import random

    if os.environ.get("VF_RNG_PERTURB"):
        random.seed(os.getpid() * 7919 + int(real() if shift else time.time()))
        [random.random() for _ in range(os.getpid() % 97)]
    import gallia.command  # noqa: F401  (must be first: circular import otherwise)

    if os.environ.get("VF_IMPORT_ORDER") == "all-first":
        import gallia.commands  # noqa: F401
        from gallia.plugins.plugin import load_commands

        load_commands()
    import logging

    logging.getLogger("gallia").addHandler(logging.NullHandler())
    from vf import vecu
    from vf.core import unjson

    cases = unjson(json.load(open(sys.argv[1])))
    # each environment walks through the batch in its own order, so that state leaking from one virtual ECU instance to
    # the next one in the same process (caches, class attributes, global RNG) shows up as a difference
    order = list(range(len(cases)))
    mode = os.environ.get("VF_ORDER", "")
    if mode == "reverse":
        order.reverse()
    elif mode.startswith("rotate:"):
        k = int(mode.split(":")[1]) % max(1, len(order))
        order = order[k:] + order[:k]
    elif mode == "interleave":
        order = order[::2] + order[1::2]
    out = [None] * len(cases)
    for ci in order:
        case = cases[ci]
        out[ci] = _one(case, vecu)
    json.dump(out, open(sys.argv[2], "w"))


def _one(case, vecu):
    if True:
        rec: dict = {}
        try:
            d = vecu.Driver(case["seed"], case["params"], [])
        except Exception as e:  # noqa: BLE001
            return {"setup_error": f"{type(e).__name__}: {e}"}
        try:
            rec["model"] = json.dumps(d.model, sort_keys=True)
            if os.environ.get("VF_REUSE_PARAMS") == "1":
                # setting the same server up a second time must give the same ECU
                d.server.randomize()
                again = json.dumps(vecu.model_dict(d.server), sort_keys=True)
                if again != rec["model"]:
                    rec["model"] = again
            tr = []
            flat = [e for o in case["ops"] for e in vecu.expand(tuple(o))]
            for o in flat:
                session = d.server.state.session
                b = vecu.resolve(tuple(o), d.model, session, d.prev, d.last_seed, d.seen_seed)
                if not b:
                    continue
                is_key = o[0] in ("seedkey", "stalekey_key") and (d.last_seed is not None or d.seen_seed is not None)
                empty_seed = is_key and len((d.last_seed or d.seen_seed)[1]) == 0
                reply, err = d.request(b)
                if err is not None:
                    tr.append([b.hex(), f"EXC {type(err).__name__}"])
                    break
                # every sendKey request carries bytes derived from a fresh seed (also when an earlier one is repeated)
                sendkey = b[0] == 0x27 and len(b) >= 2 and (b[1] & 0x7F) % 2 == 0
                # a sendKey without key bytes comes from a fresh seed of length 0 (directly or through a repeat of that request)
                empty_seed = empty_seed or (sendkey and len(b) == 2)
                req_s = (b[:2].hex() + "<key>") if (is_key or sendkey) else b.hex()
                if reply is not None and len(reply) >= 2 and reply[0] == 0x67 and reply[1] % 2 == 1:
                    rep_s = reply[:2].hex() + "<seed>"
                elif empty_seed:
                    # a fresh seed of length 0 makes the sendKey request malformed: outcome legitimately depends on the fresh seed
                    rep_s = "<empty-seed>"
                else:
                    rep_s = None if reply is None else reply.hex()
                tr.append([req_s, rep_s, d.server.state.session, d.server.state.security_access_level])
            rec["transcript"] = tr
        finally:
            d.close()
        return rec


main()
