"""Maintenance tool: verify a sub-agent's seeded change and import it into /verif/seeded/.

usage: python -m vf.seedin <ID> <N> [<ID> <N> ...]
Reads /tmp/seedout/<ID>/<N>/{patch.diff,demo.py,notes.md}; in a fresh scratch worktree of /repo (removed afterwards):
demo on clean tree must exit 0; with the patch applied demo must exit != 0 and the pinned test suite must pass.
"""
import json, os, shutil, subprocess, sys, tempfile
from pathlib import Path

ROOT = Path(__file__).resolve().parent.parent


def sh(cmd, **kw):
    return subprocess.run(cmd, shell=True, capture_output=True, text=True, **kw)


def one(pid: str, n: str) -> None:
    src = Path(os.environ.get("SEEDOUT", "/tmp/seedout")) / pid / n
    wt = Path(tempfile.mkdtemp(prefix="seedwt."))
    shutil.rmtree(wt)
    r = sh(f"git -C /repo worktree add -q --detach {wt} HEAD")
    assert r.returncode == 0, r.stderr
    try:
        env = f"PYTHONPATH={wt}/src"
        clean = sh(f"cd {wt} && {env} timeout 120 /venv/bin/python {src}/demo.py")
        ap = sh(f"git -C {wt} apply {src}/patch.diff")
        if ap.returncode != 0:
            print(f"{pid}-{n}: PATCH DOES NOT APPLY: {ap.stderr[:300]}")
            return
        pat = sh(f"cd {wt} && {env} timeout 120 /venv/bin/python {src}/demo.py")
        tests = sh(f"cd {wt} && flock /tmp/gallia-tests.lock env {env} /venv/bin/python -m pytest -q -p no:cacheprovider tests/pytest 2>&1 | tail -1")
        ok = clean.returncode == 0 and pat.returncode != 0 and " passed" in tests.stdout and "failed" not in tests.stdout
        print(f"{pid}-{n}: demo clean rc={clean.returncode}, demo patched rc={pat.returncode}, tests: {tests.stdout.strip()} -> {'OK' if ok else 'REJECTED'}")
        if not ok:
            print(clean.stdout[-300:], clean.stderr[-300:])
            return
        dst = ROOT / "seeded" / f"{pid}-{int(n) + int(os.environ.get('SEED_OFFSET', '0'))}"
        dst.mkdir(parents=True, exist_ok=True)
        for f in ("patch.diff", "demo.py", "notes.md"):
            if (src / f).exists():
                shutil.copy(src / f, dst / f)
        head = sh("git -C /repo rev-parse --short HEAD").stdout.strip()
        meta = {"property": pid, "origin": "independent sub-agent given only the property text and a scratch worktree",
                "needs_to_manifest": (src / "notes.md").read_text()[:1500] if (src / "notes.md").exists() else "",
                "verified": {"repo_head": head, "demo_clean_rc": clean.returncode, "demo_patched_rc": pat.returncode,
                             "demo_patched_output": (pat.stdout + pat.stderr)[-400:], "pinned_tests_with_patch": tests.stdout.strip(),
                             "commands": [f"PYTHONPATH=<wt>/src /venv/bin/python demo.py (clean, then after git apply patch.diff)",
                                          "PYTHONPATH=<wt>/src /venv/bin/python -m pytest -q -p no:cacheprovider tests/pytest"]}}
        (dst / "meta.json").write_text(json.dumps(meta, indent=1))
    finally:
        sh(f"git -C /repo worktree remove --force {wt}")


args = sys.argv[1:]
for i in range(0, len(args), 2):
    one(args[i], args[i + 1])
