"""Coverage-guided fuzzing with atheris (libFuzzer), used in the thorough tier of byte-level properties.

run_atheris() starts `python -m vf.fuzz <prop> ...` as a subprocess (libFuzzer never returns from Fuzz(); atexit handlers do
not run), which instruments gallia.services.uds, runs -runs=N -seed=VERIF_SEED on a fresh corpus directory and dumps its
Collector to a pickle every few thousand executions and on the last one. The semantic oracle lives in the target
(<prop module>.fuzz_one), so a finding is a property violation, not merely a crash.
"""

from __future__ import annotations

import importlib
import os
import pickle
import shutil
import subprocess
import sys
import tempfile
from pathlib import Path
from typing import Any

from vf.core import Collector


def run_atheris(col: Collector, prop: str, spec: dict[str, Any], seed: int) -> None:
    try:
        import atheris  # noqa: F401
    except Exception as e:  # noqa: BLE001
        col.notes.append(f"atheris not importable ({e!r}); coverage-guided part skipped")
        return
    tmp = Path(tempfile.mkdtemp(prefix="vf-atheris."))
    try:
        corpus = tmp / "corpus"
        corpus.mkdir()
        mod = importlib.import_module(f"vf.props.{prop}")
        for i, b in enumerate(mod.fuzz_corpus(spec["corpus"])):
            (corpus / f"seed{i:04d}").write_bytes(b)
        out = tmp / "result.pkl"
        cmd = [sys.executable, "-m", "vf.fuzz", prop, str(spec["runs"]), str(seed % (2**31 - 1) or 1), str(corpus), str(out)]
        r = subprocess.run(cmd, capture_output=True, text=True, timeout=3600)
        if out.exists():
            sub = pickle.loads(out.read_bytes())
            col.merge(sub)
            col.notes.append(f"atheris[{spec['corpus']} corpus]: {sub.evaluations} executions, rc={r.returncode}")
        else:
            col.inconclusive.append(f"atheris run produced no result file; rc={r.returncode}; stderr tail: {r.stderr[-400:]}")
    except subprocess.TimeoutExpired:
        col.inconclusive.append("atheris campaign hit the 1 h wall-clock guard")
    finally:
        shutil.rmtree(tmp, ignore_errors=True)


def _main() -> None:
    prop, runs, seed, corpus, out = sys.argv[1], int(sys.argv[2]), int(sys.argv[3]), sys.argv[4], sys.argv[5]
    import atheris

    import gallia.command  # noqa: F401

    with atheris.instrument_imports(include=["gallia.services.uds"]):
        # re-import instrumented copies
        for m in [m for m in sys.modules if m.startswith("gallia.services.uds")]:
            del sys.modules[m]
        import gallia.services.uds.core.service  # noqa: F401
        import gallia.services.uds.helpers  # noqa: F401
    mod = importlib.import_module(f"vf.props.{prop}")
    col = Collector()
    state = {"n": 0}

    def dump() -> None:
        tmp = out + ".tmp"
        with open(tmp, "wb") as f:
            pickle.dump(col, f)
        os.replace(tmp, out)

    def one(data: bytes) -> None:
        state["n"] += 1
        mod.fuzz_one(data, col)
        if state["n"] % 5000 == 0 or state["n"] >= runs - 1:
            dump()

    atheris.Setup([sys.argv[0], f"-runs={runs}", f"-seed={seed}", "-max_len=64", "-verbosity=0", "-print_final_stats=0", corpus], one)
    dump()
    atheris.Fuzz()


if __name__ == "__main__":
    _main()
