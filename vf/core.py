"""Shared machinery: case/violation collector, sharding, hypothesis settings helpers.

Every property module (vf/props/cNN.py) exposes

    PROPERTY = "Cnn"
    LEVEL = "exploration" | "fault_enumeration"
    RULE = "<how cases are generated and what makes one non-trivial>"
    ASSUMPTIONS = [...]
    def shards(tier) -> list[dict]              # picklable shard specs
    def run_shard(spec, seed) -> Collector       # executed in a worker process
    def replay(witness) -> list[tuple[bucket, message]]   # plain re-evaluation, no hypothesis

Property bodies do not assert: they call collector.violation(bucket, witness, message) so that
several root causes can be collected in one run (Hypothesis stops at the first failure).
"""

from __future__ import annotations

import hashlib
import json
import os
import random
import sys
import traceback
from collections import Counter
from typing import Any, Callable


def jsonable(x: Any) -> Any:
    if isinstance(x, (bytes, bytearray)):
        return {"hex": bytes(x).hex()}
    if isinstance(x, dict):
        return {str(k): jsonable(v) for k, v in x.items()}
    if isinstance(x, (list, tuple, set, frozenset)):
        return [jsonable(v) for v in x]
    if isinstance(x, (str, int, float, bool)) or x is None:
        return x
    return repr(x)


def unjson(x: Any) -> Any:
    """Inverse of jsonable for bytes ({"hex": ..}); lists stay lists."""
    if isinstance(x, dict):
        if set(x.keys()) == {"hex"}:
            return bytes.fromhex(x["hex"])
        return {k: unjson(v) for k, v in x.items()}
    if isinstance(x, list):
        return [unjson(v) for v in x]
    return x


def digest(x: Any) -> str:
    return hashlib.blake2b(
        json.dumps(jsonable(x), sort_keys=True, default=repr).encode(), digest_size=8
    ).hexdigest()


def wsize(w: Any) -> int:
    return len(json.dumps(jsonable(w), sort_keys=True, default=repr))


class Collector:
    """Counts cases, distinct non-trivial cases, classes, samples; keeps the smallest witness per
    violation bucket."""

    MAX_SAMPLES = 12

    def __init__(self) -> None:
        self.evaluations = 0
        self.nontrivial: set[str] = set()
        self.events: Counter[str] = Counter()
        self.samples: list[Any] = []
        self._sample_classes: set[str] = set()
        self.violations: dict[str, dict[str, Any]] = {}
        self.violation_counts: Counter[str] = Counter()
        self.excluded: Counter[str] = Counter()
        self.notes: list[str] = []
        self.exhaustive_parts: list[str] = []
        self.inconclusive: list[str] = []

    # -- cases -------------------------------------------------------------------------------
    def case(self, key: Any = None, nontrivial: bool = False, cls: str | None = None,
             sample: Any = None) -> None:
        self.evaluations += 1
        if nontrivial:
            self.nontrivial.add(key if isinstance(key, str) and len(key) <= 16 else digest(key))
        if cls is not None:
            self.events[cls] += 1
        if sample is not None:
            c = cls or "_"
            if c not in self._sample_classes and len(self.samples) < self.MAX_SAMPLES:
                self._sample_classes.add(c)
                self.samples.append(jsonable(sample))

    def event(self, label: str, n: int = 1) -> None:
        self.events[label] += n

    def exclude(self, bucket: str, n: int = 1) -> None:
        self.excluded[bucket] += n

    # -- violations --------------------------------------------------------------------------
    def violation(self, bucket: str, witness: Any, message: str) -> None:
        self.violation_counts[bucket] += 1
        w = jsonable(witness)
        cur = self.violations.get(bucket)
        if cur is None or wsize(w) < wsize(cur["witness"]):
            self.violations[bucket] = {"bucket": bucket, "witness": w, "message": message[:2000]}

    def merge(self, other: "Collector") -> None:
        self.evaluations += other.evaluations
        self.nontrivial |= other.nontrivial
        self.events.update(other.events)
        self.excluded.update(other.excluded)
        self.violation_counts.update(other.violation_counts)
        for s in other.samples:
            if len(self.samples) < self.MAX_SAMPLES and s not in self.samples:
                self.samples.append(s)
        for b, v in other.violations.items():
            cur = self.violations.get(b)
            if cur is None or wsize(v["witness"]) < wsize(cur["witness"]):
                self.violations[b] = v
        self.notes.extend(n for n in other.notes if n not in self.notes)
        self.exhaustive_parts.extend(p for p in other.exhaustive_parts if p not in self.exhaustive_parts)
        self.inconclusive.extend(other.inconclusive)


# ---------------------------------------------------------------------------------------------
# hypothesis helpers


def hyp_settings(max_examples: int, **kw: Any):
    from hypothesis import HealthCheck, Phase, settings

    phases = kw.pop("phases", (Phase.generate,))
    return settings(
        max_examples=max_examples,
        database=None,
        deadline=None,
        derandomize=False,
        report_multiple_bugs=False,
        suppress_health_check=list(HealthCheck),
        phases=phases,
        **kw,
    )


def run_given(strategy, body: Callable[[Any], None], n: int, seed: int) -> None:
    """Run body(case) on n generated cases, deterministically seeded. body must not assert for
    property violations (it records them in a Collector); exceptions escaping body are harness
    errors and propagate."""
    from hypothesis import given, seed as hseed

    @hseed(seed)
    @hyp_settings(n)
    @given(strategy)
    def t(case):
        from vf import vtime

        if vtime.SPINS[0] >= 3:
            # three runs of this process have already been reported as busy loops that never wait (each costs its whole CPU
            # budget): the remaining cases of this shard are skipped, not waited for
            return
        body(case)

    t()


def shrink_bucket(strategy, buckets_of: Callable[[Any], set[str]], bucket: str, seed: int,
                  max_examples: int = 2000):
    """Focused search + shrink for one bucket. Returns the minimal generated case showing that
    bucket or None."""
    from hypothesis import Phase, find
    from hypothesis.errors import NoSuchExample

    try:
        return find(
            strategy,
            lambda c: bucket in buckets_of(c),
            settings=hyp_settings(max_examples, phases=(Phase.generate, Phase.shrink)),
            random=random.Random(seed),
        )
    except NoSuchExample:
        return None
    except Exception:  # pragma: no cover
        traceback.print_exc()
        return None


def shard_seed(seed: int, shard: int) -> int:
    return seed * 1000 + shard


def env_seed() -> int:
    try:
        return int(os.environ.get("VERIF_SEED", "1"))
    except ValueError:
        return 1


def log(*a: Any) -> None:
    print(*a, file=sys.stderr, flush=True)
