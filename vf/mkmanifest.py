"""Regenerates MANIFEST.json from the table below (maintenance helper, not used by checks)."""
import json
from pathlib import Path

ROOT = Path(__file__).resolve().parent.parent
IDS = [f"C{i:02d}" for i in range(1, 21)]

# id -> (category, technique, text, note)
CLAIMED = {}


def claim(pid, category, technique, text, note):
    CLAIMED[pid] = (category, technique, text, note)


exec((ROOT / "vf" / "claims.py").read_text())

checks = []
for pid in IDS:
    if pid not in CLAIMED:
        continue
    cat, tech, text, note = CLAIMED[pid]
    checks.append({
        "property_id": pid,
        "quick_cmd": f"bin/check {pid} quick",
        "thorough_cmd": f"bin/check {pid} thorough",
        "evidence_file": f"evidence/{pid}.json",
        "replay_cmd_template": f"bin/check {pid} quick --replay {{path}}",
        "engine": "vf",
        "level_claimed": {"category": cat, "text": text, "design_ref": f"DESIGN.md section 3, {pid}"},
        "level_note": note,
        "technique": tech,
    })
na = [{"property_id": p, "reason": "check not built yet (in progress); property is in reach of the technique, see DESIGN.md"}
      for p in IDS if p not in CLAIMED]
m = {
    "version": 1,
    "setup_cmd": "sh bin/setup",
    "hooks": {
        "guard": "GALLIA_VERIF",
        "enable": "checks export GALLIA_VERIF=1 and import /repo/src directly (pure Python, no build step)",
        "baseline_off_cmd": "cd /repo && env -u GALLIA_VERIF /venv/bin/python -m pytest -ra -q -p no:cacheprovider --timeout=900 --continue-on-collection-errors",
        "source_commits": json.loads((ROOT / "vf" / "hook_commits.json").read_text()) if (ROOT / "vf" / "hook_commits.json").exists() else [],
        "add_only": True,
    },
    "engines": [{
        "name": "vf", "path": "vf/", "serves_properties": sorted(CLAIMED),
        "kind_free_text": "Hypothesis 6.168 strategies / rule-based machines + exhaustive enumeration of small finite "
                          "sub-domains, explicit oracles (reference codec, reference models, round-trips), virtual-time "
                          "asyncio loop and in-memory streams; collect-then-shrink with per-root-cause buckets",
    }],
    "checks": checks,
    "notes": "One entry point: bin/check <ID> <quick|thorough> [--replay FILE]. VERIF_SEED selects the Hypothesis seed. "
             "known_findings.json lists recorded findings (status known) and repaired defects (status fixed).",
    "not_applicable": na,
}
(ROOT / "MANIFEST.json").write_text(json.dumps(m, indent=1) + "\n")
print("claimed:", sorted(CLAIMED))
