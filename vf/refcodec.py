"""Reference ISO 14229-1 codec, written from the standard's message layouts - NOT from gallia's classes.

Requests:  REQ[class name] = ReqSpec(strategy for constructor kwargs, ref_encode(kwargs) -> bytes,
                                     out-of-range mutations, genuine positive reply builder)
Responses: ref_decode_response(bytes) -> (kind, fields) with kind in {"typed", "raw", "reject"}

Byte layouts (big endian):  [SID][subFunction | 0x80*suppress][identifiers...][ALFID = size_len<<4 | addr_len][addr][size][records]
"""

from __future__ import annotations

from dataclasses import dataclass, field
from typing import Any, Callable

from hypothesis import strategies as st

# ---------------------------------------------------------------------------------------------
# elementary strategies (boundary-biased)


def bint(lo: int, hi: int):
    edge = sorted({lo, hi, min(hi, lo + 1), max(lo, hi - 1), min(hi, max(lo, 0x7F)), min(hi, max(lo, 0x80)),
                   min(hi, max(lo, 0xFF)), min(hi, max(lo, 0x100))})
    return st.one_of(st.sampled_from(edge), st.integers(lo, hi))


subfn = bint(0, 0x7F)
did = bint(0, 0xFFFF)
byte = bint(0, 0xFF)
record0 = st.one_of(st.just(b""), st.binary(min_size=1, max_size=8), st.binary(min_size=1, max_size=64),
                    st.sampled_from([1, 2, 255, 256, 4093, 4095]).flatmap(lambda n: st.binary(min_size=n, max_size=n)))
record1 = record0.filter(lambda b: len(b) >= 1)
flag = st.booleans()


@st.composite
def mem(draw, with_data: bool = False) -> dict[str, Any]:
    """memory address / size with optional explicit ALFID; widths 1..15 bytes."""
    alen = draw(st.one_of(st.sampled_from([1, 2, 4, 15]), st.integers(1, 15)))
    slen = draw(st.one_of(st.sampled_from([1, 2, 4, 15]), st.integers(1, 15)))
    addr = draw(st.one_of(st.sampled_from([0, 256 ** alen - 1, 256 ** (alen - 1)]), st.integers(0, 256 ** alen - 1)))
    size = draw(st.one_of(st.sampled_from([0, 1, 256 ** slen - 1, 256 ** (slen - 1)]), st.integers(0, 256 ** slen - 1)))
    explicit = draw(st.booleans())
    return {"memory_address": addr, "memory_size": size,
            "address_and_length_format_identifier": ((slen << 4) | alen) if explicit else None}


def minlen(n: int) -> int:
    return max(1, (n.bit_length() + 7) // 8)


def enc_mem(addr: int, size: int, alfid: int | None) -> tuple[int, bytes, bytes]:
    if alfid is None:
        al, sl = minlen(addr), minlen(size)
        alfid = (sl << 4) | al
    else:
        al, sl = alfid & 0xF, alfid >> 4
    return alfid, addr.to_bytes(al, "big"), size.to_bytes(sl, "big")


def sfb(sf: int, suppress: bool) -> bytes:
    return bytes([sf | (0x80 if suppress else 0)])


def be(n: int, w: int) -> bytes:
    return n.to_bytes(w, "big")


def aslist(x: Any) -> list[Any]:
    return list(x) if isinstance(x, (list, tuple)) else [x]


# ---------------------------------------------------------------------------------------------


@dataclass
class ReqSpec:
    name: str
    sid: int
    strategy: Any
    encode: Callable[[dict[str, Any]], bytes]
    # list of (label, kwargs -> kwargs | None) pushing exactly one parameter out of its documented range
    bad: list[tuple[str, Callable[[dict[str, Any]], dict[str, Any] | None]]] = field(default_factory=list)
    # genuine positive reply (bytes) for kwargs and a generated tail; None if no typed reply is modelled
    reply: Callable[[dict[str, Any], bytes], bytes] | None = None
    # offsets (in the reply) of the echoed primary identifier bytes (for the one-byte-changed mutation)
    echo: Callable[[dict[str, Any]], list[int]] = lambda kw: []
    nontrivial: Callable[[dict[str, Any]], bool] = lambda kw: True
    has_suppress: bool = False


REQ: dict[str, ReqSpec] = {}


def _set(kw: dict[str, Any], **ch: Any) -> dict[str, Any]:
    d = dict(kw)
    d.update(ch)
    return d


def _reg(spec: ReqSpec) -> None:
    REQ[spec.name] = spec


def _sup(kw: dict[str, Any]) -> bool:
    return bool(kw.get("suppress_response", False))


BAD_SF = [("subfunction>0x7f", 0x80), ("subfunction=0xff", 0xFF), ("subfunction<0", -1), ("subfunction=0x100", 0x100)]
BAD_DID = [("did>0xffff", 0x10000), ("did<0", -1)]


def bad_param(name: str, values: list[tuple[str, Any]]):
    return [(f"{name}:{lbl}", (lambda kw, v=v, name=name: _set(kw, **{name: v}))) for lbl, v in values]


# --- 0x10 / 0x11 -----------------------------------------------------------------------------
_reg(ReqSpec(
    "DiagnosticSessionControlRequest", 0x10,
    st.fixed_dictionaries({"diagnostic_session_type": subfn, "suppress_response": flag}),
    lambda kw: b"\x10" + sfb(kw["diagnostic_session_type"], _sup(kw)),
    bad=bad_param("diagnostic_session_type", BAD_SF),
    reply=lambda kw, tail: b"\x50" + bytes([kw["diagnostic_session_type"]]) + tail[:4],
    echo=lambda kw: [1], nontrivial=lambda kw: _sup(kw) or kw["diagnostic_session_type"] in (0, 0x7F), has_suppress=True))
_reg(ReqSpec(
    "ECUResetRequest", 0x11,
    st.fixed_dictionaries({"reset_type": subfn, "suppress_response": flag}),
    lambda kw: b"\x11" + sfb(kw["reset_type"], _sup(kw)),
    bad=bad_param("reset_type", BAD_SF),
    reply=lambda kw, tail: b"\x51" + bytes([kw["reset_type"]]) + (tail[:1] if kw["reset_type"] == 4 else b""),
    echo=lambda kw: [1], nontrivial=lambda kw: _sup(kw) or kw["reset_type"] in (0, 0x7F), has_suppress=True))
# --- 0x27 ------------------------------------------------------------------------------------
_reg(ReqSpec(
    "RequestSeedRequest", 0x27,
    st.fixed_dictionaries({"security_access_type": st.integers(0, 62).map(lambda i: 2 * i + 1),
                           "security_access_data_record": record0, "suppress_response": flag}),
    lambda kw: b"\x27" + sfb(kw["security_access_type"], _sup(kw)) + kw["security_access_data_record"],
    bad=bad_param("security_access_type", [("even", 2), ("even-0x7e", 0x7E), (">0x7f", 0x81), ("<0", -1)]),
    reply=lambda kw, tail: b"\x67" + bytes([kw["security_access_type"]]) + (tail or b"\x01"),
    echo=lambda kw: [1], nontrivial=lambda kw: _sup(kw) or len(kw["security_access_data_record"]) > 0, has_suppress=True))
_reg(ReqSpec(
    "SendKeyRequest", 0x27,
    st.fixed_dictionaries({"security_access_type": st.integers(1, 63).map(lambda i: 2 * i),
                           "security_key": record1, "suppress_response": flag}),
    lambda kw: b"\x27" + sfb(kw["security_access_type"], _sup(kw)) + kw["security_key"],
    bad=bad_param("security_access_type", [("odd", 1), ("odd-0x7f", 0x7F), (">0x7f", 0x82), ("<0", -2)]),
    reply=lambda kw, tail: b"\x67" + bytes([kw["security_access_type"]]),
    echo=lambda kw: [1], nontrivial=lambda kw: _sup(kw) or len(kw["security_key"]) > 1, has_suppress=True))
# --- 0x28 / 0x3E / 0x85 ----------------------------------------------------------------------
_reg(ReqSpec(
    "CommunicationControlRequest", 0x28,
    st.fixed_dictionaries({"control_type": subfn, "communication_type": byte, "suppress_response": flag}),
    lambda kw: b"\x28" + sfb(kw["control_type"], _sup(kw)) + bytes([kw["communication_type"]]),
    bad=bad_param("control_type", BAD_SF) + bad_param("communication_type", [(">0xff", 0x100), ("<0", -1)]),
    reply=lambda kw, tail: b"\x68" + bytes([kw["control_type"]]),
    echo=lambda kw: [1], nontrivial=lambda kw: _sup(kw) or kw["communication_type"] in (0, 0xFF), has_suppress=True))
_reg(ReqSpec(
    "TesterPresentRequest", 0x3E,
    st.fixed_dictionaries({"suppress_response": flag}),
    lambda kw: b"\x3e" + sfb(0, _sup(kw)),
    reply=lambda kw, tail: b"\x7e\x00", echo=lambda kw: [1], nontrivial=lambda kw: _sup(kw), has_suppress=True))
_reg(ReqSpec(
    "ControlDTCSettingRequest", 0x85,
    st.fixed_dictionaries({"dtc_setting_type": subfn, "dtc_setting_control_option_record": record0,
                           "suppress_response": flag}),
    lambda kw: b"\x85" + sfb(kw["dtc_setting_type"], _sup(kw)) + kw["dtc_setting_control_option_record"],
    bad=bad_param("dtc_setting_type", BAD_SF),
    reply=lambda kw, tail: b"\xc5" + bytes([kw["dtc_setting_type"]]),
    echo=lambda kw: [1], nontrivial=lambda kw: _sup(kw) or len(kw["dtc_setting_control_option_record"]) > 0,
    has_suppress=True))
# --- 0x22 ------------------------------------------------------------------------------------
_reg(ReqSpec(
    "ReadDataByIdentifierRequest", 0x22,
    st.fixed_dictionaries({"data_identifiers": st.one_of(did, st.lists(did, min_size=1, max_size=6),
                                                         st.lists(did, min_size=1, max_size=40))}),
    lambda kw: b"\x22" + b"".join(be(d, 2) for d in aslist(kw["data_identifiers"])),
    bad=[("data_identifiers:did>0xffff", lambda kw: _set(kw, data_identifiers=aslist(kw["data_identifiers"]) + [0x10000])),
         ("data_identifiers:did<0", lambda kw: _set(kw, data_identifiers=[-1])),
         ("data_identifiers:single>0xffff", lambda kw: _set(kw, data_identifiers=0x10000)),
         ("data_identifiers:empty-list", lambda kw: _set(kw, data_identifiers=[]))],
    reply=lambda kw, tail: b"\x62" + be(aslist(kw["data_identifiers"])[0], 2) + (tail or b"\x00"),
    echo=lambda kw: [1, 2], nontrivial=lambda kw: len(aslist(kw["data_identifiers"])) >= 2 or aslist(kw["data_identifiers"])[0] in (0, 0xFFFF)))
# --- 0x23 ------------------------------------------------------------------------------------


def _enc_rmba(kw: dict[str, Any]) -> bytes:
    alfid, a, s = enc_mem(kw["memory_address"], kw["memory_size"], kw["address_and_length_format_identifier"])
    return b"\x23" + bytes([alfid]) + a + s


def _bad_mem(prefix: str = ""):
    def too_wide_addr(kw):
        al = kw["address_and_length_format_identifier"]
        if al is None:
            return None
        return _set(kw, memory_address=256 ** (al & 0xF))

    def too_wide_size(kw):
        al = kw["address_and_length_format_identifier"]
        if al is None:
            return None
        return _set(kw, memory_size=256 ** (al >> 4))

    return [("memory_address:too-wide-for-alfid", too_wide_addr), ("memory_size:too-wide-for-alfid", too_wide_size),
            ("memory_address:negative", lambda kw: _set(kw, memory_address=-1)),
            ("memory_size:negative", lambda kw: _set(kw, memory_size=-1)),
            ("alfid:addr-nibble-zero", lambda kw: _set(kw, address_and_length_format_identifier=0x10)),
            ("alfid:size-nibble-zero", lambda kw: _set(kw, address_and_length_format_identifier=0x01)),
            ("alfid:>0xff", lambda kw: _set(kw, address_and_length_format_identifier=0x111)),
            ("memory_address:>15-bytes", lambda kw: _set(kw, memory_address=256 ** 15, address_and_length_format_identifier=None)),
            ("memory_size:>15-bytes", lambda kw: _set(kw, memory_size=256 ** 15, address_and_length_format_identifier=None))]


def _mem_nontrivial(kw: dict[str, Any]) -> bool:
    return kw.get("address_and_length_format_identifier") is not None or kw["memory_address"] > 0xFFFF


_reg(ReqSpec("ReadMemoryByAddressRequest", 0x23, mem(), _enc_rmba, bad=_bad_mem(),
             reply=lambda kw, tail: b"\x63" + (tail * (kw["memory_size"] // max(1, len(tail)) + 1))[: kw["memory_size"]]
             if 0 < kw["memory_size"] <= 4095 and tail else None,  # type: ignore[arg-type,return-value]
             nontrivial=_mem_nontrivial))
# --- 0x2C ------------------------------------------------------------------------------------


@st.composite
def _dddi_by_id(draw) -> dict[str, Any]:
    n = draw(st.one_of(st.just(1), st.integers(1, 5), st.integers(1, 30)))
    scalar = n == 1 and draw(st.booleans())
    src = [draw(did) for _ in range(n)]
    pos = [draw(byte) for _ in range(n)]
    siz = [draw(byte) for _ in range(n)]
    return {"dynamically_defined_data_identifier": draw(did),
            "source_data_identifiers": src[0] if scalar else src,
            "positions_in_source_data_record": pos[0] if scalar else pos,
            "memory_sizes": siz[0] if scalar else siz, "suppress_response": draw(flag)}


def _enc_dddi_id(kw: dict[str, Any]) -> bytes:
    out = b"\x2c" + sfb(1, _sup(kw)) + be(kw["dynamically_defined_data_identifier"], 2)
    for s, p, m in zip(aslist(kw["source_data_identifiers"]), aslist(kw["positions_in_source_data_record"]),
                       aslist(kw["memory_sizes"])):
        out += be(s, 2) + be(p, 1) + be(m, 1)
    return out


_reg(ReqSpec(
    "DefineByIdentifierRequest", 0x2C, _dddi_by_id(), _enc_dddi_id,
    bad=bad_param("dynamically_defined_data_identifier", BAD_DID) + [
        ("source_data_identifiers:did>0xffff", lambda kw: _set(kw, source_data_identifiers=[0x10000] + aslist(kw["source_data_identifiers"])[1:])),
        ("positions:>0xff", lambda kw: _set(kw, positions_in_source_data_record=[0x100] + aslist(kw["positions_in_source_data_record"])[1:])),
        ("memory_sizes:>0xff", lambda kw: _set(kw, memory_sizes=[0x100] + aslist(kw["memory_sizes"])[1:])),
        ("lists:length-mismatch-sizes", lambda kw: _set(kw, memory_sizes=aslist(kw["memory_sizes"]) + [1])),
        ("lists:length-mismatch-positions", lambda kw: _set(kw, positions_in_source_data_record=aslist(kw["positions_in_source_data_record"]) + [1])),
    ],
    reply=lambda kw, tail: b"\x6c\x01" + be(kw["dynamically_defined_data_identifier"], 2),
    echo=lambda kw: [1], nontrivial=lambda kw: _sup(kw) or len(aslist(kw["source_data_identifiers"])) >= 2, has_suppress=True))


@st.composite
def _dddi_by_mem(draw) -> dict[str, Any]:
    n = draw(st.one_of(st.just(1), st.integers(1, 4), st.integers(1, 20)))
    alen = draw(st.one_of(st.sampled_from([1, 2, 4, 15]), st.integers(1, 15)))
    slen = draw(st.one_of(st.sampled_from([1, 2, 4, 15]), st.integers(1, 15)))
    addrs = [draw(st.one_of(st.sampled_from([0, 256 ** alen - 1]), st.integers(0, 256 ** alen - 1))) for _ in range(n)]
    sizes = [draw(st.one_of(st.sampled_from([0, 256 ** slen - 1]), st.integers(0, 256 ** slen - 1))) for _ in range(n)]
    scalar = n == 1 and draw(st.booleans())
    explicit = draw(st.booleans())
    return {"dynamically_defined_data_identifier": draw(did),
            "memory_addresses": addrs[0] if scalar else addrs, "memory_sizes": sizes[0] if scalar else sizes,
            "address_and_length_format_identifier": ((slen << 4) | alen) if explicit else None,
            "suppress_response": draw(flag)}


def _enc_dddi_mem(kw: dict[str, Any]) -> bytes:
    addrs, sizes = aslist(kw["memory_addresses"]), aslist(kw["memory_sizes"])
    alfid = kw["address_and_length_format_identifier"]
    if alfid is None:
        al = max(minlen(a) for a in addrs)
        sl = max(minlen(s) for s in sizes)
        alfid = (sl << 4) | al
    al, sl = alfid & 0xF, alfid >> 4
    out = b"\x2c" + sfb(2, _sup(kw)) + be(kw["dynamically_defined_data_identifier"], 2) + bytes([alfid])
    for a, s in zip(addrs, sizes):
        out += be(a, al) + be(s, sl)
    return out


_reg(ReqSpec(
    "DefineByMemoryAddressRequest", 0x2C, _dddi_by_mem(), _enc_dddi_mem,
    bad=bad_param("dynamically_defined_data_identifier", BAD_DID) + [
        ("lists:length-mismatch", lambda kw: _set(kw, memory_sizes=aslist(kw["memory_sizes"]) + [1])),
        ("memory_addresses:too-wide-for-alfid", lambda kw: None if kw["address_and_length_format_identifier"] is None else
         _set(kw, memory_addresses=[256 ** (kw["address_and_length_format_identifier"] & 0xF)] + aslist(kw["memory_addresses"])[1:])),
        ("alfid:addr-nibble-zero", lambda kw: _set(kw, address_and_length_format_identifier=0x10)),
        ("memory_addresses:negative", lambda kw: _set(kw, memory_addresses=[-1] + aslist(kw["memory_addresses"])[1:])),
    ],
    reply=lambda kw, tail: b"\x6c\x02" + be(kw["dynamically_defined_data_identifier"], 2),
    echo=lambda kw: [1], nontrivial=lambda kw: _sup(kw) or len(aslist(kw["memory_addresses"])) >= 2
    or kw["address_and_length_format_identifier"] is not None, has_suppress=True))
_reg(ReqSpec(
    "ClearDynamicallyDefinedDataIdentifierRequest", 0x2C,
    st.fixed_dictionaries({"dynamically_defined_data_identifier": st.one_of(st.none(), did), "suppress_response": flag}),
    lambda kw: b"\x2c" + sfb(3, _sup(kw)) + (b"" if kw["dynamically_defined_data_identifier"] is None
                                            else be(kw["dynamically_defined_data_identifier"], 2)),
    bad=bad_param("dynamically_defined_data_identifier", BAD_DID),
    reply=lambda kw, tail: b"\x6c\x03" + (b"" if kw["dynamically_defined_data_identifier"] is None
                                         else be(kw["dynamically_defined_data_identifier"], 2)),
    echo=lambda kw: [1], nontrivial=lambda kw: _sup(kw) or kw["dynamically_defined_data_identifier"] is not None,
    has_suppress=True))
# --- 0x2E / 0x3D / 0x14 ----------------------------------------------------------------------
_reg(ReqSpec(
    "WriteDataByIdentifierRequest", 0x2E,
    st.fixed_dictionaries({"data_identifier": did, "data_record": record1}),
    lambda kw: b"\x2e" + be(kw["data_identifier"], 2) + kw["data_record"],
    bad=bad_param("data_identifier", BAD_DID) + [("data_record:empty", lambda kw: _set(kw, data_record=b""))],
    reply=lambda kw, tail: b"\x6e" + be(kw["data_identifier"], 2),
    echo=lambda kw: [1, 2], nontrivial=lambda kw: len(kw["data_record"]) > 1 or kw["data_identifier"] in (0, 0xFFFF)))


@st.composite
def _wmba(draw) -> dict[str, Any]:
    m = draw(mem())
    data = draw(record1)
    given_size = draw(st.booleans())
    kw = {"memory_address": m["memory_address"], "data_record": data,
          "memory_size": m["memory_size"] if given_size else None,
          "address_and_length_format_identifier": m["address_and_length_format_identifier"]}
    if not given_size and kw["address_and_length_format_identifier"] is not None:
        # size defaults to len(data): must fit the explicit size width
        sl = kw["address_and_length_format_identifier"] >> 4
        if len(data) >= 256 ** sl:
            kw["address_and_length_format_identifier"] = None
    return kw


def _enc_wmba(kw: dict[str, Any]) -> bytes:
    size = kw["memory_size"] if kw["memory_size"] is not None else len(kw["data_record"])
    alfid, a, s = enc_mem(kw["memory_address"], size, kw["address_and_length_format_identifier"])
    return b"\x3d" + bytes([alfid]) + a + s + kw["data_record"]


def _reply_wmba(kw: dict[str, Any], tail: bytes) -> bytes:
    size = kw["memory_size"] if kw["memory_size"] is not None else len(kw["data_record"])
    alfid, a, s = enc_mem(kw["memory_address"], size, kw["address_and_length_format_identifier"])
    return b"\x7d" + bytes([alfid]) + a + s


_reg(ReqSpec("WriteMemoryByAddressRequest", 0x3D, _wmba(), _enc_wmba,
             bad=[("memory_address:negative", lambda kw: _set(kw, memory_address=-1)),
                  ("memory_address:too-wide-for-alfid", lambda kw: None if kw["address_and_length_format_identifier"] is None
                   else _set(kw, memory_address=256 ** (kw["address_and_length_format_identifier"] & 0xF))),
                  ("alfid:size-nibble-zero", lambda kw: _set(kw, address_and_length_format_identifier=0x02)),
                  ("alfid:>0xff", lambda kw: _set(kw, address_and_length_format_identifier=0x122))],
             reply=_reply_wmba, echo=lambda kw: [2],
             nontrivial=lambda kw: kw["address_and_length_format_identifier"] is not None or kw["memory_size"] is not None))
_reg(ReqSpec(
    "ClearDiagnosticInformationRequest", 0x14,
    st.fixed_dictionaries({"group_of_dtc": bint(0, 0xFFFFFF)}),
    lambda kw: b"\x14" + be(kw["group_of_dtc"], 3),
    bad=bad_param("group_of_dtc", [(">0xffffff", 0x1000000), ("<0", -1)]),
    reply=lambda kw, tail: b"\x54", nontrivial=lambda kw: kw["group_of_dtc"] not in (0xFFFFFF,)))
# --- 0x19 ------------------------------------------------------------------------------------
DTC_TYPE0 = {"ReportNumberOfDTCByStatusMaskRequest": (0x01, "count"), "ReportDTCByStatusMaskRequest": (0x02, "list"),
             "ReportMirrorMemoryDTCByStatusMaskRequest": (0x0F, "list"),
             "ReportNumberOfMirrorMemoryDTCByStatusMaskRequest": (0x11, "count"),
             "ReportNumberOfEmissionsRelatedOBDDTCByStatusMaskRequest": (0x12, "count"),
             "ReportEmissionsRelatedOBDDTCByStatusMaskRequest": (0x13, "list")}
DTC_SINGLE_SF = {0x0B, 0x0C, 0x0D, 0x0E}
DTC_TYPE6 = {"ReportSupportedDTCRequest": 0x0A, "ReportFirstTestFailedDTCRequest": 0x0B,
             "ReportFirstConfirmedDTCRequest": 0x0C, "ReportMostRecentFirstTestFailedDTCRequest": 0x0D,
             "ReportMostRecentConfirmedDTCRequest": 0x0E, "ReportDTCWithPermanentStatusRequest": 0x15}


def _dtc_reply(sf: int, kind: str):
    def f(kw: dict[str, Any], tail: bytes) -> bytes:
        if kind == "count":
            return bytes([0x59, sf, 0xFF, 0x01]) + (tail + b"\0\0")[:2]
        recs = tail[: len(tail) // 4 * 4]
        if sf in DTC_SINGLE_SF:
            recs = recs[:4]  # "first / most recent" reports carry at most one record
        # distinct DTCs only (duplicates are C02's subject)
        seen = set()
        out = b""
        for i in range(0, len(recs), 4):
            if recs[i:i + 3] not in seen:
                seen.add(recs[i:i + 3])
                out += recs[i:i + 4]
        return bytes([0x59, sf, 0xFF]) + out
    return f


for _n, (_sf, _k) in DTC_TYPE0.items():
    _reg(ReqSpec(_n, 0x19, st.fixed_dictionaries({"dtc_status_mask": byte, "suppress_response": flag}),
                 (lambda kw, sf=_sf: b"\x19" + sfb(sf, _sup(kw)) + bytes([kw["dtc_status_mask"]])),
                 bad=bad_param("dtc_status_mask", [(">0xff", 0x100), ("<0", -1)]),
                 reply=_dtc_reply(_sf, _k), echo=lambda kw: [1], nontrivial=lambda kw: _sup(kw) or kw["dtc_status_mask"] in (0, 0xFF),
                 has_suppress=True))
for _n, _sf in DTC_TYPE6.items():
    # ISO layout has no mask byte: [19][subFunction]; the only documented parameter is suppress_response
    _reg(ReqSpec(_n, 0x19, st.fixed_dictionaries({"suppress_response": flag}),
                 (lambda kw, sf=_sf: b"\x19" + sfb(sf, _sup(kw))),
                 reply=_dtc_reply(_sf, "list"), echo=lambda kw: [1], nontrivial=lambda kw: True, has_suppress=True))
_reg(ReqSpec(
    "ReportDTCExtDataRecordByDTCNumberRequest", 0x19,
    st.fixed_dictionaries({"dtc_mask_record": st.one_of(bint(0, 0xFFFFFF), st.binary(min_size=3, max_size=3)),
                           "dtc_ext_data_record_number": byte, "suppress_response": flag}),
    lambda kw: b"\x19" + sfb(6, _sup(kw)) + (kw["dtc_mask_record"] if isinstance(kw["dtc_mask_record"], bytes)
                                            else be(kw["dtc_mask_record"], 3)) + bytes([kw["dtc_ext_data_record_number"]]),
    bad=bad_param("dtc_mask_record", [(">0xffffff", 0x1000000), ("<0", -1), ("bytes-len-2", b"\x00\x01"), ("bytes-len-4", b"\0\0\0\1")])
    + bad_param("dtc_ext_data_record_number", [(">0xff", 0x100), ("<0", -1)]),
    reply=lambda kw, tail: b"\x59\x06" + (kw["dtc_mask_record"] if isinstance(kw["dtc_mask_record"], bytes)
                                          else be(kw["dtc_mask_record"], 3)) + b"\x2f"
    + bytes([min(kw["dtc_ext_data_record_number"], 0xFD)]) + (tail or b"\x00"),
    echo=lambda kw: [1], nontrivial=lambda kw: True, has_suppress=True))
# --- 0x2F ------------------------------------------------------------------------------------
_reg(ReqSpec(
    "InputOutputControlByIdentifierRequest", 0x2F,
    st.fixed_dictionaries({"data_identifier": did, "control_option_record": record1,
                           "control_enable_mask_record": record0.filter(lambda b: len(b) <= 64)}),
    lambda kw: b"\x2f" + be(kw["data_identifier"], 2) + kw["control_option_record"] + kw["control_enable_mask_record"],
    bad=bad_param("data_identifier", BAD_DID) + [("control_option_record:empty", lambda kw: _set(kw, control_option_record=b""))],
    reply=lambda kw, tail: b"\x6f" + be(kw["data_identifier"], 2) + kw["control_option_record"][:1] + tail,
    echo=lambda kw: [1, 2], nontrivial=lambda kw: len(kw["control_enable_mask_record"]) > 0 or len(kw["control_option_record"]) > 1))
for _n, _p in [("ReturnControlToECURequest", 0), ("ResetToDefaultRequest", 1), ("FreezeCurrentStateRequest", 2)]:
    _reg(ReqSpec(
        _n, 0x2F,
        st.fixed_dictionaries({"data_identifier": did, "control_enable_mask_record": record0.filter(lambda b: len(b) <= 64)}),
        (lambda kw, p=_p: b"\x2f" + be(kw["data_identifier"], 2) + bytes([p]) + kw["control_enable_mask_record"]),
        bad=bad_param("data_identifier", BAD_DID),
        reply=(lambda kw, tail, p=_p: b"\x6f" + be(kw["data_identifier"], 2) + bytes([p]) + tail),
        echo=lambda kw: [1, 2], nontrivial=lambda kw: len(kw["control_enable_mask_record"]) > 0))
_reg(ReqSpec(
    "ShortTermAdjustmentRequest", 0x2F,
    st.fixed_dictionaries({"data_identifier": did, "control_states": record1.filter(lambda b: len(b) <= 256),
                           "control_enable_mask_record": record0.filter(lambda b: len(b) <= 64)}),
    lambda kw: b"\x2f" + be(kw["data_identifier"], 2) + b"\x03" + kw["control_states"] + kw["control_enable_mask_record"],
    bad=bad_param("data_identifier", BAD_DID),
    reply=lambda kw, tail: b"\x6f" + be(kw["data_identifier"], 2) + b"\x03" + kw["control_states"],
    echo=lambda kw: [1, 2], nontrivial=lambda kw: len(kw["control_enable_mask_record"]) > 0 or len(kw["control_states"]) > 1))
# --- 0x31 ------------------------------------------------------------------------------------
for _n, _sf in [("StartRoutineRequest", 1), ("StopRoutineRequest", 2), ("RequestRoutineResultsRequest", 3)]:
    _reg(ReqSpec(
        _n, 0x31,
        st.fixed_dictionaries({"routine_identifier": did, "routine_control_option_record": record0, "suppress_response": flag}),
        (lambda kw, sf=_sf: b"\x31" + sfb(sf, _sup(kw)) + be(kw["routine_identifier"], 2) + kw["routine_control_option_record"]),
        bad=bad_param("routine_identifier", [(">0xffff", 0x10000), ("<0", -1)]),
        reply=(lambda kw, tail, sf=_sf: b"\x71" + bytes([sf]) + be(kw["routine_identifier"], 2) + tail),
        echo=lambda kw: [1, 2, 3], nontrivial=lambda kw: _sup(kw) or len(kw["routine_control_option_record"]) > 0, has_suppress=True))
# --- 0x34 / 0x35 -----------------------------------------------------------------------------


@st.composite
def _updown(draw) -> dict[str, Any]:
    m = draw(mem())
    return {"memory_address": m["memory_address"], "memory_size": m["memory_size"],
            "compression_method": draw(bint(0, 0xF)), "encryption_method": draw(bint(0, 0xF)),
            "address_and_length_format_identifier": m["address_and_length_format_identifier"]}


def _enc_updown(sid: int):
    def f(kw: dict[str, Any]) -> bytes:
        alfid, a, s = enc_mem(kw["memory_address"], kw["memory_size"], kw["address_and_length_format_identifier"])
        return bytes([sid, (kw["compression_method"] << 4) | kw["encryption_method"], alfid]) + a + s
    return f


for _n, _sid in [("RequestDownloadRequest", 0x34), ("RequestUploadRequest", 0x35)]:
    _reg(ReqSpec(_n, _sid, _updown(), _enc_updown(_sid),
                 bad=_bad_mem() + bad_param("compression_method", [(">0xf", 0x10), ("<0", -1)])
                 + bad_param("encryption_method", [(">0xf", 0x10), ("<0", -1)]),
                 reply=(lambda kw, tail, sid=_sid: bytes([sid + 0x40, 0x20]) + (tail + b"\x01\x02")[:2]),
                 nontrivial=lambda kw: _mem_nontrivial(kw) or kw["compression_method"] > 0 or kw["encryption_method"] > 0))
# --- 0x36 / 0x37 -----------------------------------------------------------------------------
_reg(ReqSpec(
    "TransferDataRequest", 0x36,
    st.fixed_dictionaries({"block_sequence_counter": byte, "transfer_request_parameter_record": record0}),
    lambda kw: b"\x36" + bytes([kw["block_sequence_counter"]]) + kw["transfer_request_parameter_record"],
    bad=bad_param("block_sequence_counter", [(">0xff", 0x100), ("<0", -1)]),
    reply=lambda kw, tail: b"\x76" + bytes([kw["block_sequence_counter"]]) + tail,
    echo=lambda kw: [1], nontrivial=lambda kw: len(kw["transfer_request_parameter_record"]) > 0))
_reg(ReqSpec(
    "RequestTransferExitRequest", 0x37,
    st.fixed_dictionaries({"transfer_request_parameter_record": record0}),
    lambda kw: b"\x37" + kw["transfer_request_parameter_record"],
    reply=lambda kw, tail: b"\x77" + tail, nontrivial=lambda kw: len(kw["transfer_request_parameter_record"]) > 0))


def request_case(names: list[str] | None = None):
    """Strategy: {"cls": name, "kw": kwargs}"""
    ns = names or sorted(REQ)
    return st.sampled_from(ns).flatmap(lambda n: REQ[n].strategy.map(lambda kw: {"cls": n, "kw": kw}))


# ---------------------------------------------------------------------------------------------
# reference response decoder: fields at ISO byte positions

KNOWN_NRC = {0x10, 0x11, 0x12, 0x13, 0x14, 0x21, 0x22, 0x24, 0x25, 0x26, 0x31, 0x33, 0x34, 0x35, 0x36, 0x37, 0x38, 0x39, 0x3A,
             *range(0x50, 0x5E), 0x70, 0x71, 0x72, 0x73, 0x78, 0x7E, 0x7F, *range(0x81, 0x8E), *range(0x8F, 0x95),
             *range(0xF0, 0xFF)}

# request service ids for which gallia has typed codecs
TYPED_SIDS = {0x10, 0x11, 0x27, 0x28, 0x3E, 0x85, 0x22, 0x23, 0x2C, 0x2E, 0x3D, 0x14, 0x19, 0x2F, 0x31, 0x34, 0x35, 0x36, 0x37}
DTC_COUNT_SF = {0x01, 0x11, 0x12}
DTC_LIST_SF = {0x02, 0x0F, 0x13, 0x0A, 0x0B, 0x0C, 0x0D, 0x0E, 0x15}
DTC_SINGLE_SF = {0x0B, 0x0C, 0x0D, 0x0E}


def ref_decode_response(b: bytes) -> tuple[str, dict[str, Any] | None]:
    """("typed", fields) if b is a well-formed response of a service gallia models, with the field values at their ISO
    positions; ("malformed", None) if it belongs to such a service but breaks its length/format rule;
    ("unmodelled", None) otherwise (unknown service or sub-function: raw is the expected outcome)."""
    if len(b) == 0:
        return "malformed", None
    r = b[0]
    n = len(b)
    if r == 0x7F:
        if n != 3 or b[2] not in KNOWN_NRC:
            return "malformed", None
        return "typed", {"request_service_id": b[1], "response_code": b[2]}
    sid = r - 0x40
    if sid not in TYPED_SIDS:
        return "unmodelled", None
    if sid in (0x10, 0x11, 0x27, 0x28, 0x3E, 0x85, 0x2C, 0x19, 0x31):
        if n < 2:
            return "malformed", None
        if b[1] > 0x7F:
            return "malformed", None
    if sid == 0x10:
        return "typed", {"diagnostic_session_type": b[1], "session_parameter_record": b[2:]}
    if sid == 0x11:
        if n > 3:
            return "malformed", None
        return "typed", {"reset_type": b[1], "power_down_time": b[2] if n == 3 else None}
    if sid == 0x27:
        return "typed", {"security_access_type": b[1], "security_seed": b[2:]}
    if sid == 0x28:
        return ("typed", {"control_type": b[1]}) if n == 2 else ("malformed", None)
    if sid == 0x3E:
        return ("typed", {}) if b == b"\x7e\x00" else ("malformed", None)
    if sid == 0x85:
        return ("typed", {"dtc_setting_type": b[1]}) if n == 2 else ("malformed", None)
    if sid == 0x22:
        if n < 4:
            return "malformed", None
        return "typed", {"data_identifiers": [int.from_bytes(b[1:3], "big")], "data_records": [b[3:]]}
    if sid == 0x23:
        return ("typed", {"data_record": b[1:]}) if n >= 2 else ("malformed", None)
    if sid == 0x2C:
        sf = b[1]
        if sf in (1, 2):
            return ("typed", {"dynamically_defined_data_identifier": int.from_bytes(b[2:4], "big")}) if n == 4 else ("malformed", None)
        if sf == 3:
            if n == 2:
                return "typed", {"dynamically_defined_data_identifier": None}
            if n == 4:
                return "typed", {"dynamically_defined_data_identifier": int.from_bytes(b[2:4], "big")}
            return "malformed", None
        return "unmodelled", None
    if sid == 0x2E:
        return ("typed", {"data_identifier": int.from_bytes(b[1:3], "big")}) if n == 3 else ("malformed", None)
    if sid == 0x3D:
        if n < 2:
            return "malformed", None
        al, sl = b[1] & 0xF, b[1] >> 4
        if al == 0 or sl == 0 or n != 2 + al + sl:
            return "malformed", None
        return "typed", {"address_and_length_format_identifier": b[1], "memory_address": int.from_bytes(b[2:2 + al], "big"),
                         "memory_size": int.from_bytes(b[2 + al:], "big")}
    if sid == 0x14:
        return ("typed", {}) if n == 1 else ("malformed", None)
    if sid == 0x19:
        sf = b[1]
        if sf in DTC_COUNT_SF:
            if n != 6 or b[3] > 3:
                return "malformed", None
            return "typed", {"dtc_status_availability_mask": b[2], "dtc_format_identifier": b[3],
                             "dtc_count": int.from_bytes(b[4:6], "big")}
        if sf in DTC_LIST_SF:
            if n < 3 or (n - 3) % 4 != 0 or (sf in DTC_SINGLE_SF and n > 7):
                return "malformed", None
            recs = [(int.from_bytes(b[i:i + 3], "big"), b[i + 3]) for i in range(3, n, 4)]
            return "typed", {"dtc_status_availability_mask": b[2], "dtc_and_status_record": recs}
        if sf == 0x06:
            if n < 6:
                return "malformed", None
            return "typed", {"dtc_and_status_record": (int.from_bytes(b[2:5], "big"), b[5]), "ext": b[6:]}
        return "unmodelled", None
    if sid == 0x2F:
        if n < 4:
            return "malformed", None
        return "typed", {"data_identifier": int.from_bytes(b[1:3], "big"), "control_status_record": b[3:]}
    if sid == 0x31:
        if b[1] not in (1, 2, 3):
            return "unmodelled", None
        if n < 4:
            return "malformed", None
        return "typed", {"routine_control_type": b[1], "routine_identifier": int.from_bytes(b[2:4], "big"),
                         "routine_status_record": b[4:]}
    if sid in (0x34, 0x35):
        if n < 3:
            return "malformed", None
        ln = b[1] >> 4
        if b[1] & 0xF or ln == 0 or n != 2 + ln:
            return "malformed", None
        return "typed", {"length_format_identifier": b[1], "max_number_of_block_length": int.from_bytes(b[2:], "big")}
    if sid == 0x36:
        return ("typed", {"block_sequence_counter": b[1], "transfer_response_parameter_record": b[2:]}) if n >= 2 else ("malformed", None)
    if sid == 0x37:
        return "typed", {"transfer_response_parameter_record": b[1:]}
    return "unmodelled", None


# valid responses from the reference encoder ------------------------------------------------------

RESP_SIDS = sorted(TYPED_SIDS)


@st.composite
def valid_response(draw) -> bytes:
    sid = draw(st.sampled_from(RESP_SIDS + [0x7F]))
    tail = draw(record0.filter(lambda x: len(x) <= 300))
    if sid == 0x7F:
        return bytes([0x7F, draw(byte), draw(st.sampled_from(sorted(KNOWN_NRC)))])
    r = sid + 0x40
    if sid in (0x10, 0x27):
        return bytes([r, draw(subfn)]) + tail
    if sid == 0x11:
        return bytes([r, draw(subfn)]) + tail[:draw(st.integers(0, 1))]
    if sid in (0x28, 0x85):
        return bytes([r, draw(subfn)])
    if sid == 0x3E:
        return b"\x7e\x00"
    if sid in (0x22, 0x2F):
        return bytes([r]) + be(draw(did), 2) + (tail or b"\x00")
    if sid == 0x23:
        return bytes([r]) + (tail or b"\x00")
    if sid == 0x2C:
        sf = draw(st.sampled_from([1, 2, 3]))
        if sf == 3 and draw(st.booleans()):
            return bytes([r, 3])
        return bytes([r, sf]) + be(draw(did), 2)
    if sid == 0x2E:
        return bytes([r]) + be(draw(did), 2)
    if sid == 0x3D:
        m = draw(mem())
        alfid, a, s = enc_mem(m["memory_address"], m["memory_size"], m["address_and_length_format_identifier"])
        return bytes([r, alfid]) + a + s
    if sid == 0x14:
        return bytes([r])
    if sid == 0x19:
        kind = draw(st.sampled_from(["count", "list", "ext"]))
        if kind == "count":
            return bytes([r, draw(st.sampled_from(sorted(DTC_COUNT_SF))), draw(byte), draw(st.integers(0, 3))]) + be(draw(did), 2)
        if kind == "list":
            sf = draw(st.sampled_from(sorted(DTC_LIST_SF)))
            n = draw(st.integers(0, 1 if sf in DTC_SINGLE_SF else 12))
            recs = b"".join(be(draw(bint(0, 0xFFFFFF)), 3) + bytes([draw(byte)]) for _ in range(n))
            return bytes([r, sf, draw(byte)]) + recs
        return bytes([r, 6]) + be(draw(bint(0, 0xFFFFFF)), 3) + bytes([draw(byte)]) + \
            (bytes([draw(bint(0, 0xFD))]) + tail if draw(st.integers(0, 4)) else b"")
    if sid == 0x31:
        return bytes([r, draw(st.sampled_from([1, 2, 3]))]) + be(draw(did), 2) + tail
    if sid in (0x34, 0x35):
        ln = draw(st.one_of(st.sampled_from([1, 2, 4, 15]), st.integers(1, 15)))
        return bytes([r, ln << 4]) + be(draw(st.integers(0, 256 ** ln - 1)), ln)
    if sid == 0x36:
        return bytes([r, draw(byte)]) + tail
    if sid == 0x37:
        return bytes([r]) + tail
    raise AssertionError(sid)
