"""Maintenance helper (never called by checks): add a replay file to known_findings.json.

usage: python -m vf.kf <replay.json> <known|fixed> "<what>" [commit]
"""
import json, sys
from pathlib import Path

ROOT = Path(__file__).resolve().parent.parent


def main() -> None:
    rp, status, what = sys.argv[1:4]
    commit = sys.argv[4] if len(sys.argv) > 4 else None
    r = json.loads(Path(rp).read_text())
    f = ROOT / "known_findings.json"
    data = json.loads(f.read_text()) if f.exists() else {"findings": []}
    data["findings"] = [e for e in data["findings"] if e["bucket"] != r["bucket"]]
    e = {"property": r["property"], "bucket": r["bucket"], "status": status, "what": what, "witness": r["witness"]}
    if commit:
        e["commit"] = commit
        e["line"] = f"fixed: property={r['property']} {commit} {what}"
    data["findings"].append(e)
    data["findings"].sort(key=lambda e: (e["property"], e["bucket"]))
    f.write_text(json.dumps(data, indent=1, sort_keys=True) + "\n")


main()
