"""Entry point: python -m vf.runner <ID> <quick|thorough> [--replay FILE]

Exit codes: 0 property held on everything explored (KNOWN-FINDING lines allowed),
            1 at least one VIOLATION line printed,
            2 harness error / inconclusive.
"""

from __future__ import annotations

import importlib
import json
import multiprocessing as mp
import os
import sys
import time
import traceback
from pathlib import Path
from typing import Any

from vf.core import Collector, digest, env_seed, jsonable, log, shard_seed

ROOT = Path(os.environ.get("VERIF_ROOT", Path(__file__).resolve().parent.parent))
# evidence / replays go to VERIF_OUT when set (used by the sensitivity runner so that mutant runs never touch
# the evidence of the real tree)
OUT = Path(os.environ.get("VERIF_OUT", ROOT))


def _check_tree() -> str:
    import gallia

    src = os.environ.get("VERIF_REPO_SRC", "/repo/src")
    p = os.path.realpath(gallia.__file__)
    if not p.startswith(os.path.realpath(src) + os.sep):
        log(f"harness error: gallia imported from {p}, expected under {src}")
        sys.exit(2)
    return p


def _quiet() -> None:
    """gallia logs warnings for every injected fault; without a handler Python prints them to stderr."""
    import logging

    lg = logging.getLogger("gallia")
    if not any(isinstance(h, logging.NullHandler) for h in lg.handlers):
        lg.addHandler(logging.NullHandler())


def _worker(args: tuple[str, dict[str, Any], int]) -> Collector | str:
    modname, spec, seed = args
    try:
        import gallia.command  # noqa: F401  (import order quirk: must come first)

        _quiet()

        mod = importlib.import_module(modname)
        return mod.run_shard(spec, seed)
    except BaseException:  # noqa: BLE001
        return "HARNESS-ERROR in shard %r:\n%s" % (spec, traceback.format_exc())


def _replay_worker(args: tuple[str, Any]) -> list[tuple[str, str]] | str:
    """Replays run in a pool worker, never in the main process: some checks start threads (log handlers, zstd), and the main
    process must stay thread-free because it forks the shard workers afterwards."""
    modname, witness = args
    try:
        import gallia.command  # noqa: F401

        _quiet()
        mod = importlib.import_module(modname)
        return list(mod.replay(witness))
    except BaseException:  # noqa: BLE001
        return "HARNESS-ERROR in replay:\n" + traceback.format_exc()


def load_known(prop: str) -> list[dict[str, Any]]:
    f = ROOT / "known_findings.json"
    if not f.exists():
        return []
    data = json.loads(f.read_text())
    return [e for e in data.get("findings", []) if e.get("property") == prop]


def write_replay(prop: str, v: dict[str, Any]) -> Path:
    d = OUT / "replays" / prop
    d.mkdir(parents=True, exist_ok=True)
    p = d / f"{digest(v['bucket'])}.json"
    p.write_text(json.dumps({"property": prop, **{k: x for k, x in v.items() if not k.startswith("_")}}, indent=1, sort_keys=True))
    return p


def main(argv: list[str]) -> int:
    if len(argv) < 2:
        log(__doc__)
        return 2
    prop = argv[0].upper()
    tier = argv[1]
    replay_file = None
    if "--replay" in argv:
        replay_file = argv[argv.index("--replay") + 1]
    if tier not in ("quick", "thorough"):
        log("tier must be quick or thorough")
        return 2
    seed = env_seed()
    t0 = time.time()

    import gallia.command  # noqa: F401

    _quiet()
    gpath = _check_tree()
    modname = f"vf.props.{prop.lower()}"
    mod = importlib.import_module(modname)

    # ---------------------------------------------------------------- replay mode
    if replay_file is not None:
        w = json.loads(Path(replay_file).read_text())
        res = mod.replay(w["witness"])
        if res:
            for b, m in res:
                print(f"replay: bucket={b} {m}")
            print(f"VIOLATION property={prop} replay={replay_file}")
            return 1
        print(f"replay: no violation for {replay_file}")
        return 0

    exit_code = 0
    suppressed: dict[str, str] = {}
    violations_out: list[dict[str, Any]] = []
    known_lines: list[str] = []
    regress_n = 0

    # ---------------------------------------------------------------- known findings / fixed
    known = load_known(prop)
    rdir = ROOT / "regress" / prop
    rfiles = sorted(rdir.glob("*.json")) if rdir.is_dir() else []
    rwit = [json.loads(f.read_text()) for f in rfiles]
    ctx = mp.get_context("fork")
    replay_jobs = [(modname, e["witness"]) for e in known] + [(modname, w["witness"]) for w in rwit]
    replay_res: list[Any] = []
    if replay_jobs:
        with ctx.Pool(min(8, len(replay_jobs)), maxtasksperchild=4) as pool:
            replay_res = pool.map(_replay_worker, replay_jobs, chunksize=1)
    for r in replay_res:
        if isinstance(r, str):
            log(r)
            return 2
    for e, res in zip(known, replay_res[: len(known)]):
        regress_n += 1
        buckets = {b for b, _ in res}
        if e.get("status") == "known":
            if e["bucket"] in buckets:
                line = f"KNOWN-FINDING: property={prop} {e['bucket']}: {e['what']}"
                print(line)
                known_lines.append(line)
                suppressed[e["bucket"]] = e["what"]
                buckets.discard(e["bucket"])
            # other buckets triggered by the same witness are reported by the main search if real
        elif e.get("status") == "fixed":
            if e["bucket"] in buckets:
                v = {"bucket": e["bucket"], "witness": e["witness"],
                     "message": "regression of fixed finding: " + e.get("what", "")}
                violations_out.append(v)

    # ---------------------------------------------------------------- committed regression witnesses
    for f, w, res in zip(rfiles, rwit, replay_res[len(known):]):
        regress_n += 1
        for b, m in res:
            if b not in suppressed:
                violations_out.append({"bucket": b, "witness": w["witness"],
                                       "message": f"regression witness {f.name}: {m}"})

    # ---------------------------------------------------------------- main search
    specs = mod.shards(tier)
    nproc = min(int(os.environ.get("VERIF_JOBS", "16")), max(1, len(specs)))
    total = Collector()
    jobs = [(modname, dict(spec, tier=tier, shard=i, nshards=len(specs)), shard_seed(seed, i))
            for i, spec in enumerate(specs)]
    with ctx.Pool(nproc, maxtasksperchild=1) as pool:
        results = pool.map(_worker, jobs, chunksize=1)
    for r in results:
        if isinstance(r, str):
            log(r)
            return 2
        total.merge(r)

    for b, v in sorted(total.violations.items()):
        if b in suppressed:
            total.exclude(b, total.violation_counts[b])
            continue
        # optional focused shrink
        n_shrunk = sum(1 for x in violations_out if x.get("_shrunk"))
        if hasattr(mod, "shrink") and os.environ.get("VERIF_NO_SHRINK") != "1" and n_shrunk < (3 if tier == "quick" else 12):
            try:
                small = mod.shrink(b, v["witness"], seed)
                if small is not None:
                    v = dict(v, witness=jsonable(small))
                v = dict(v, _shrunk=True)
            except Exception:  # noqa: BLE001
                log(f"shrink failed for {b}:\n{traceback.format_exc()}")
        violations_out.append(v)

    seen: set[str] = set()
    for v in violations_out:
        if v["bucket"] in seen:
            continue
        seen.add(v["bucket"])
        p = write_replay(prop, v)
        print(f"violation: bucket={v['bucket']} count={total.violation_counts.get(v['bucket'], 1)} {v['message'][:400]}")
        print(f"VIOLATION property={prop} replay={p}")
        exit_code = 1

    if total.inconclusive:
        for n in total.inconclusive:
            log("inconclusive:", n)
        if exit_code == 0:
            exit_code = 2

    # ---------------------------------------------------------------- evidence
    wall = time.time() - t0
    cov: dict[str, Any] = {
        "evaluations": total.evaluations,
        "distinct_nontrivial": len(total.nontrivial),
        "rule": mod.RULE,
        "samples": total.samples,
        "classes": dict(sorted(total.events.items())),
        "exhaustive": False,
        "exhaustive_subdomains": total.exhaustive_parts,
        "regression_witnesses_replayed": regress_n,
        "known_findings_reported": known_lines,
        "excluded_by_known_finding": dict(total.excluded),
        "violation_buckets": {b: total.violation_counts.get(b, 1) for b in seen},
        "shards": len(specs),
        "gallia_path": gpath,
        "notes": total.notes,
    }
    ev = {
        "property_id": prop,
        "tier": tier,
        "seed": seed,
        "level": mod.LEVEL,
        "coverage": cov,
        "assumptions": list(getattr(mod, "ASSUMPTIONS", [])),
        "wall_s": round(wall, 2),
        "violations": len(seen),
    }
    (OUT / "evidence").mkdir(parents=True, exist_ok=True)
    (OUT / "evidence" / f"{prop}.json").write_text(json.dumps(ev, indent=1, sort_keys=True))
    log(f"{prop} {tier} seed={seed}: {total.evaluations} cases, {len(total.nontrivial)} distinct non-trivial, "
        f"{len(seen)} violation bucket(s), {len(known_lines)} known finding(s), {wall:.1f}s")
    return exit_code


if __name__ == "__main__":
    try:
        rc = main(sys.argv[1:])
    except SystemExit:
        raise
    except BaseException:  # noqa: BLE001
        traceback.print_exc()
        rc = 2
    sys.stdout.flush()
    sys.exit(rc)
